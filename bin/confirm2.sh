#!/bin/bash
# Like confirm_seed.sh, with per-call scratch files so that several confirmations can run side by side (one per worktree).
# usage: confirm2.sh <tag> <worktree> <patch> <ninja targets> <test command (run in worktree)> <demo dir> <demo command: build and run, exit 0 = pass>
set -u
TAG=$1; WT=$2; PATCH=$3; TARGETS=$4; TESTCMD=$5; DDIR=$6; DCMD=$7
L=/tmp/confirm2_$TAG; mkdir -p $L
cd "$WT" && git checkout -q -- .
ninja -C _build -j6 $TARGETS >$L/build_clean.out 2>&1 || { echo "$TAG clean build failed"; exit 2; }
( cd "$DDIR" && eval "$DCMD" ) >$L/demo_clean.out 2>&1; RC_CLEAN=$?
git apply "$PATCH" || { echo "$TAG patch does not apply"; exit 2; }
ninja -C _build -j6 $TARGETS >$L/build_patched.out 2>&1 || { echo "$TAG patched build failed"; git checkout -q -- .; exit 2; }
( eval "$TESTCMD" ) >$L/tests.out 2>&1; RC_TESTS=$?
( cd "$DDIR" && eval "$DCMD" ) >$L/demo_patched.out 2>&1; RC_PATCHED=$?
git checkout -q -- .
ninja -C _build -j6 $TARGETS >/dev/null 2>&1
V=NOT-CONFIRMED; [ $RC_TESTS -eq 0 ] && [ $RC_CLEAN -eq 0 ] && [ $RC_PATCHED -ne 0 ] && V=CONFIRMED
echo "$TAG tests_rc=$RC_TESTS demo_clean_rc=$RC_CLEAN demo_patched_rc=$RC_PATCHED $V ($(grep -E 'PASSED|FAILED' $L/tests.out | tail -2 | tr '\n' ' '))"
