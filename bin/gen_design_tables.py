#!/usr/bin/env python3
"""Rewrite the generated tables of DESIGN.md (§15 fixed defects, §16 seeded changes) between their markers."""
import json, os, re, glob
V = os.path.dirname(os.path.dirname(os.path.abspath(__file__)))
p = os.path.join(V, 'DESIGN.md')
s = open(p).read()

rows = []
for line in open(os.path.join(V, 'known_findings.jsonl')):
    line = line.strip()
    if not line:
        continue
    k = json.loads(line)
    what = re.sub(r'^fixed: property=\S+ \S+ ', '', k.get('what', ''))
    rows.append('| %s | `%s` | `%s` | %s |' % (k['property'], k.get('commit', ''), k['class'], what.replace('|', '/')))
t15 = '| property | fix commit | violation class reported | failing input / schedule / history |\n|---|---|---|---|\n' + '\n'.join(rows)

rows = []
for d in sorted(glob.glob(os.path.join(V, 'seeded', '*'))):
    mp = os.path.join(d, 'meta.json')
    if not os.path.exists(mp):
        continue
    m = json.load(open(mp))
    rows.append('| %s | %s | %s | %s |' % (m['id'], m['property'], m['needs_to_manifest'].replace('|', '/'), ' '.join(m.get('caught_by', [])).replace('|', '/')))
t16 = '| seeded change | property | needs, in order to manifest | caught by |\n|---|---|---|---|\n' + '\n'.join(rows)

def put(s, name, body):
    a, b = '<!-- %s:begin -->' % name, '<!-- %s:end -->' % name
    i, j = s.index(a) + len(a), s.index(b)
    return s[:i] + '\n' + body + '\n' + s[j:]
s = put(s, 'fixed-table', t15)
s = put(s, 'seed-table', t16)
open(p, 'w').write(s)
print('tables updated')
