#!/bin/bash
# Confirm a seeded change in its scratch worktree: existing tests still pass, the demo passes without and fails with the change.
# usage: confirm_seed.sh <worktree> <patch> <ninja targets (quoted)> <test binary (relative to _build)> <demo dir> <demo build cmd> <demo run cmd> [gtest filter]
set -u
WT=$1; PATCH=$2; TARGETS=$3; TESTBIN=$4; DDIR=$5; DBUILD=$6; DRUN=$7; FILTER=${8:-*}
cd "$WT" && git checkout -q -- . && git status --short | grep -v _build
echo "== [clean] build + demo"
ninja -C _build -j8 $TARGETS >/dev/null 2>&1 || { echo "clean build failed"; exit 2; }
( cd "$DDIR" && eval "$DBUILD" ) >/dev/null 2>&1 || { echo "demo build (clean) failed"; exit 2; }
( cd "$DDIR" && eval "$DRUN" ) >/tmp/confirm_clean.out 2>&1; RC_CLEAN=$?
echo "demo on clean tree: exit $RC_CLEAN"
echo "== [patched] build + existing tests + demo"
git apply "$PATCH" || { echo "patch does not apply"; exit 2; }
ninja -C _build -j8 $TARGETS >/tmp/confirm_build.out 2>&1 || { echo "patched build failed"; tail -5 /tmp/confirm_build.out; git checkout -q -- .; exit 2; }
timeout 900 ./_build/$TESTBIN --gtest_filter="$FILTER" >/tmp/confirm_tests.out 2>&1; RC_TESTS=$?
grep -E "PASSED|FAILED" /tmp/confirm_tests.out | tail -4
( cd "$DDIR" && eval "$DBUILD" ) >/dev/null 2>&1 || { echo "demo build (patched) failed"; git checkout -q -- .; exit 2; }
( cd "$DDIR" && eval "$DRUN" ) >/tmp/confirm_patched.out 2>&1; RC_PATCHED=$?
echo "demo on patched tree: exit $RC_PATCHED"
git checkout -q -- .
ninja -C _build -j8 $TARGETS >/dev/null 2>&1
echo "RESULT tests_rc=$RC_TESTS demo_clean_rc=$RC_CLEAN demo_patched_rc=$RC_PATCHED"
[ $RC_TESTS -eq 0 ] && [ $RC_CLEAN -eq 0 ] && [ $RC_PATCHED -ne 0 ] && echo "CONFIRMED" || echo "NOT-CONFIRMED"
