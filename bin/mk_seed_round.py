#!/usr/bin/env python3
"""mk_seed_round.py <PROP> <tag> <test_target> — prepare a scratch worktree /tmp/wt_<PROP><tag>, /tmp/seed_<PROP><tag>/PROPERTY.txt and
/tmp/agent_prompt_<PROP><tag>.txt for a fresh sub-agent that produces two more seeded changes (it is given the property text and the
places earlier seeded changes touched, nothing else from /verif)."""
import json, os, re, subprocess, sys, glob
prop, tag, target = sys.argv[1:4]
wt = f'/tmp/wt_{prop}{tag}'; out = f'/tmp/seed_{prop}{tag}'
subprocess.run(['git', '-C', '/repo', 'worktree', 'remove', '--force', wt], stderr=subprocess.DEVNULL)
subprocess.check_call(['git', '-C', '/repo', 'worktree', 'add', '--detach', wt, 'HEAD'], stdout=subprocess.DEVNULL, stderr=subprocess.DEVNULL)
os.makedirs(out, exist_ok=True)
for l in open('/verif/properties.jsonl'):
    p = json.loads(l)
    if p['id'] == prop: break
with open(out + '/PROPERTY.txt', 'w') as f:
    f.write(p['title'] + '\n\n' + p['statement'] + '\n\nSource files: ' + ', '.join(p['anchors']['files']) + '\n')
touched = []
for d in sorted(glob.glob(f'/verif/seeded/{prop}-*')):
    cur = None
    for line in open(d + '/patch.diff', errors='replace'):
        if line.startswith('+++ b/'): cur = line[6:].strip()
        m = re.match(r'@@ .* @@ (.*)', line)
        if m and cur: touched.append(f'{cur}: {m.group(1).strip()}')
touched = sorted(set(touched))
# what the earlier changes did, in one line each (so that a new change does not repeat a mechanism)
for d in sorted(glob.glob(f'/verif/seeded/{prop}-*')):
    try: touched.append('earlier change: ' + json.load(open(d + '/meta.json'))['needs_to_manifest'][:300])
    except Exception: pass
tmpl = open('/verif/bin/seed_agent_prompt.txt').read()
txt = tmpl.replace('@WT@', wt).replace('@OUT@', out).replace('@TARGET@', target).replace('@TOUCHED@', '\n'.join('   - ' + t for t in touched) or '   (none)')
open(f'/tmp/agent_prompt_{prop}{tag}.txt', 'w').write(txt)
print(f'/tmp/agent_prompt_{prop}{tag}.txt', wt, out)
