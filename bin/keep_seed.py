#!/usr/bin/env python3
"""keep_seed.py <id> <property> <srcdir> <needs> <confirmed> <caught_by...>  — store a confirmed seeded change under /verif/seeded/<id>/"""
import json, os, shutil, sys
sid, prop, src, needs, confirmed = sys.argv[1:6]
caught = sys.argv[6:]
d = os.path.join('/verif/seeded', sid)
os.makedirs(d, exist_ok=True)
for f in os.listdir(src):
    p = os.path.join(src, f)
    if os.path.isfile(p) and os.path.getsize(p) < 400000 and not os.access(p, os.X_OK):
        shutil.copy(p, os.path.join(d, f))
json.dump({'id': sid, 'property': prop, 'needs_to_manifest': needs, 'confirmed_by_me': confirmed, 'caught_by': caught}, open(os.path.join(d, 'meta.json'), 'w'), indent=1)
print('kept', d, os.listdir(d))
