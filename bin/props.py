# Per-property configuration of the simulation checks (see DESIGN.md §7).
# budgets: seconds of batch time per flavour (after the build) or number of runs.

PROPS = {
    'C05': dict(
        harness='c05_threadpool',
        title='Thread pool / work thread',
        flavours=dict(
            asan=dict(quick_s=35, thorough_s=600),
            tsan=dict(quick_s=12, thorough_s=300),
        ),
        race_re=r'modules/(tbox/)?eventx/(thread_pool|work_thread)\.cpp',
        mode='threads',
        real=['event::Loop (epoll and select back ends)', 'eventx::ThreadPool', 'eventx::WorkThread', 'base::Cabinet', 'base::ObjectPool',
              'std::thread/mutex/condition_variable (libstdc++, modelled at the pthread boundary)'],
        stub=['kernel thread scheduling (seeded scheduler)', 'monotonic clock (virtual)'],
    ),
    'C10': dict(
        harness='c10_asyncpipe',
        title='Async pipe',
        flavours=dict(asan=dict(quick_s=30, thorough_s=600), tsan=dict(quick_s=12, thorough_s=300)),
        race_re=r'modules/(tbox/)?util/async_pipe\.cpp',
        mode='threads',
        real=['util::AsyncPipe (producers, back-end thread, timed flush, back-pressure, cleanup)'],
        stub=['kernel thread scheduling (seeded scheduler)', 'monotonic clock (virtual)', 'the sink (records bytes; may be slow)'],
    ),
    'C01': dict(
        harness='c01_looptasks',
        title='Loop deferred tasks',
        flavours=dict(asan=dict(quick_s=30, thorough_s=600), tsan=dict(quick_s=12, thorough_s=300)),
        race_re=r'modules/(tbox/)?event/',
        mode='threads',
        real=['event::CommonLoop run queues, eventfd wake-up, shutdown drain, destructor drain', 'EpollLoop', 'SelectLoop', 'EpollFdEvent/SelectFdEvent (wake-up event)'],
        stub=['kernel thread scheduling (seeded scheduler)', 'monotonic clock (virtual)', 'epoll_wait/select blocking (zero-timeout probes of the real kernel objects, EINTR and late wake-ups injected)'],
    ),
    'C02': dict(
        harness='c02_timers',
        title='Loop timers / TimerPool',
        flavours=dict(asan=dict(quick_s=30, thorough_s=600)),
        mode='single',
        real=['event::CommonLoop timer heap, getWaitTime/handleExpiredTimers', 'TimerEventImpl', 'eventx::TimerPool', 'EpollLoop / SelectLoop', 'base::Cabinet', 'base::ObjectPool (poisoned when parked)'],
        stub=['monotonic clock (virtual, whole milliseconds)', 'epoll_wait/select blocking (late wake-ups and EINTR injected)'],
    ),
    'C03': dict(
        harness='c03_fdevents',
        title='Descriptor events',
        flavours=dict(asan=dict(quick_s=30, thorough_s=600)),
        mode='single',
        real=['EpollLoop + EpollFdEvent + shared per-descriptor records', 'SelectLoop + SelectFdEvent', 'base::ObjectPool (poisoned when parked)', 'kernel epoll/select on real AF_UNIX socket pairs'],
        stub=['the peer of every socket pair (driver)', 'blocking in epoll_wait/select (probe + virtual time; subset-of-ready-events and EINTR injected)'],
    ),
    'C06': dict(
        harness='c06_bytestream',
        title='BufferedFd / TCP byte stream',
        flavours=dict(asan=dict(quick_s=35, thorough_s=600)),
        mode='single',
        real=['network::BufferedFd', 'network::TcpConnection', 'network::TcpServer + TcpAcceptor', 'network::TcpClient + TcpConnector', 'util::Buffer', 'util::Fd', 'event loop (epoll/select)', 'kernel AF_UNIX stream sockets'],
        stub=['the remote peer (raw descriptor driven by the plan)', 'write/read outcomes at the syscall seam (short writes/reads, EAGAIN injected)', 'monotonic clock'],
    ),
    'C12': dict(
        harness='c12_http',
        title='HTTP server',
        flavours=dict(asan=dict(quick_s=35, thorough_s=600)),
        mode='single',
        real=['http::server::Server / Impl / Context', 'http RequestParser, Url, Request, Respond', 'network::TcpServer/TcpAcceptor/TcpConnection/BufferedFd', 'eventx::TimerPool (late handlers)', 'event loop'],
        stub=['the HTTP client (raw AF_UNIX socket; segmentation, pacing and disconnects from the plan)', 'syscall outcomes on the server side (short/EAGAIN)', 'monotonic clock'],
    ),
    'C14': dict(
        harness='c14_jsonrpc',
        title='JSON-RPC framing and request completion',
        flavours=dict(asan=dict(quick_s=30, thorough_s=600)),
        mode='single',
        real=['jsonrpc::HeaderStreamProto / RawStreamProto / PacketProto', 'jsonrpc::Proto', 'jsonrpc::Rpc', 'eventx::TimeoutMonitor', 'util::json::FindEndPos', 'util::Serializer/Deserializer', 'event loop + timers'],
        stub=['the transport between the two endpoints (simulated link: re-segmentation, delay, jitter; loss/duplication/reordering for the datagram framing)', 'monotonic clock'],
    ),
    'C15': dict(
        harness='c15_dns',
        title='DNS client',
        flavours=dict(asan=dict(quick_s=25, thorough_s=600), valgrind=dict(quick_runs=300, quick_s=40, thorough_runs=4000, thorough_s=600)),
        mode='single',
        real=['network::DnsRequest (reply parser, request table)', 'network::UdpSocket', 'eventx::TimeoutMonitor', 'util::Deserializer', 'event loop', 'kernel UDP over 127.0.0.1 (redirected at the sendto seam)'],
        stub=['the name servers and the network between client and servers (replies crafted and scheduled by the plan)', 'monotonic clock'],
    ),
    'C18': dict(
        harness='c18_coroutine',
        title='Coroutine primitives',
        flavours=dict(asan=dict(quick_s=30, thorough_s=600)),
        mode='single',
        real=['coroutine::Scheduler (ucontext switching, ready queue, cancel, cleanup, join)', 'coroutine::Channel/Mutex/Semaphore/Broadcast/Condition', 'event loop (runNext-driven scheduling)'],
        stub=['nothing in tbox; the routine bodies are scripts interpreted by the harness', 'monotonic clock'],
    ),
    'C20': dict(
        harness='c20_alarm',
        title='Alarms',
        flavours=dict(asan=dict(quick_s=30, thorough_s=600)),
        mode='single',
        real=['alarm::Alarm (arming, re-arming, refresh, remainSeconds)', 'WeeklyAlarm / OneshotAlarm / WorkdayAlarm + WorkdayCalendar / CronAlarm + ccronexpr', 'event loop one-shot timers'],
        stub=['monotonic clock and wall clock (both virtual; skew between them and wall-clock jumps are injected)', 'time zone (always set explicitly)'],
    ),
    'C09': dict(
        harness='c09_logging',
        title='Logging',
        flavours=dict(asan=dict(quick_s=30, thorough_s=600), tsan=dict(quick_s=12, thorough_s=300)),
        race_re=r'modules/(tbox/)?(base/log|log/|util/async_pipe)',
        mode='threads',
        real=['base LogPrintfFunc front end (formatting, truncation, dispatch lock)', 'log::Sink filter', 'log::AsyncSink framing', 'log::AsyncFileSink (roll-over, file naming)', 'util::AsyncPipe + its back-end thread', 'real files in a per-run directory'],
        stub=['kernel thread scheduling (seeded scheduler)', 'wall clock and monotonic clock (virtual)', 'no disk faults are injected (the property does not state behaviour under I/O errors)'],
    ),
    'C04': dict(
        harness='c04_signals',
        title='Signal events',
        flavours=dict(asan=dict(quick_s=30, thorough_s=600)),
        mode='threads',
        real=['event::CommonLoop signal pipe, process-wide handler table, sigaction save/restore', 'SignalEventImpl', 'real sigaction()/raise()/pipes'],
        stub=['kernel thread scheduling (seeded scheduler)', 'the moment of signal delivery (raise() on a chosen thread, one at a time)'],
    ),
    'C11': dict(
        harness='c11_modules',
        title='Module tree life cycle',
        flavours=dict(asan=dict(quick_s=20, thorough_s=300)),
        mode='single',
        real=['main::Module (add, fillDefaultConfig, initialize, start, stop, cleanup, destructor)'],
        stub=['main::Context (the probe hooks never use it)', 'the application modules (probe modules whose hooks fail according to the fault plan)'],
        level_text='Seeded search over tree shapes, hook-failure assignments (the fault plan) and root call sequences against the real Module class; the only nondeterminism of this property is the fault plan - there is no schedule or clock in it. A clean batch is evidence, not proof.',
    ),
}

NOT_APPLICABLE = {
    'C07': 'pure single-threaded data structure (byte buffer): outcome is a function of the call sequence; no schedule, clock, I/O or fault for a simulator to decide (DESIGN.md §8)',
    'C08': 'passive containers/handles (cabinet, object pool, Fd): single-threaded call histories, no source of nondeterminism or fault seam (DESIGN.md §8)',
    'C16': 'hierarchical state machine is synchronous, single-threaded and time-free: the trace is a pure function of (definition, event sequence) (DESIGN.md §8)',
    'C19': 'codecs, checksums, MD5, AES are pure functions of their input; input generation is not simulation (DESIGN.md §8)',
}

# planned in DESIGN.md §7 but whose harness is not built yet — not claimed until it is
PENDING = {p: 'harness not built yet (planned in DESIGN.md §7); not claimed until the check exists' for p in
           ['C13', 'C17']}
