# Per-property configuration of the simulation checks (see DESIGN.md §7).
# budgets: seconds of batch time per flavour (after the build) or number of runs.

PROPS = {
    'C05': dict(
        harness='c05_threadpool',
        title='Thread pool / work thread',
        flavours=dict(
            asan=dict(quick_s=35, thorough_s=600),
            tsan=dict(quick_runs=240, thorough_runs=4000, quick_s=40, thorough_s=400),
        ),
        race_re=r'modules/(tbox/)?eventx/(thread_pool|work_thread)\.cpp',
        mode='threads',
        real=['event::Loop (epoll and select back ends)', 'eventx::ThreadPool', 'eventx::WorkThread', 'base::Cabinet', 'base::ObjectPool',
              'std::thread/mutex/condition_variable (libstdc++, modelled at the pthread boundary)'],
        stub=['kernel thread scheduling (seeded scheduler)', 'monotonic clock (virtual)'],
    ),
}
