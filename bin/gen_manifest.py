#!/usr/bin/env python3
"""Regenerate /verif/MANIFEST.json from bin/props.py (checks) and the fixed not-applicable list."""
import json, os, sys
VERIF = os.path.dirname(os.path.dirname(os.path.abspath(__file__)))
sys.path.insert(0, os.path.join(VERIF, 'bin'))
from props import PROPS, NOT_APPLICABLE, PENDING

checks = []
for pid in sorted(PROPS):
    c = PROPS[pid]
    fl = ', '.join(c['flavours'].keys())
    checks.append({
        'property_id': pid,
        'quick_cmd': 'bin/check %s --tier quick' % pid,
        'thorough_cmd': 'bin/check %s --tier thorough' % pid,
        'evidence_file': 'evidence/%s.json' % pid,
        'replay_cmd_template': 'bin/check %s --replay {path}' % pid,
        'engine': 'libsim',
        'level_claimed': {
            'category': 'exploration',
            'text': c.get('level_text', 'Seeded search over schedules, plans and fault sequences with the real tbox code under a deterministic simulator; a clean batch is evidence, not proof.'),
            'design_ref': 'DESIGN.md §7 ' + pid,
        },
        'level_note': c.get('level_note', 'Trusted: libsim\'s model of pthread mutex/condvar, virtual clock and readiness waits; real kernel objects for fds; pre-emption only at intercepted calls. Flavours: ' + fl + '.'),
        'technique': c.get('technique', 'deterministic simulation with fault injection (seeded scheduler over real threads, virtual time, reference-model oracle over the recorded history)'),
    })
na = [{'property_id': k, 'reason': v} for k, v in sorted(NOT_APPLICABLE.items())]
na += [{'property_id': k, 'reason': v} for k, v in sorted(PENDING.items()) if k not in PROPS]
m = {
    'version': 1,
    'setup_cmd': 'bin/setup',
    'hooks': {
        'guard': 'TBOX_VERIF_SIM',
        'enable': 'checks compile /repo/modules/**/*.cpp themselves (Makefile) with -DTBOX_VERIF_SIM -DNDEBUG and link them with libsim via -Wl,--wrap=...; no CMake option is involved',
        'baseline_off_cmd': 'cmake --build /repo/_build -j 12 && ctest --test-dir /repo/_build -j8 --timeout 900',
        'source_commits': json.load(open(os.path.join(VERIF, 'hooks.json')))['source_commits'] if os.path.exists(os.path.join(VERIF, 'hooks.json')) else [],
        'add_only': True,
    },
    'engines': [{
        'name': 'libsim',
        'path': 'sim/',
        'serves_properties': sorted(PROPS),
        'kind_free_text': 'deterministic simulator: seeded scheduler over real parked threads, virtual clocks, link-time wrapped pthread/time/I-O calls, fault scopes, fork-per-run zygote, replay + delta-debugging minimiser (bin/check)',
    }],
    'checks': checks,
    'not_applicable': na,
    'notes': 'Technique family: deterministic simulation with fault injection. See DESIGN.md. Known findings and fixed defects: known_findings.jsonl.',
}
json.dump(m, open(os.path.join(VERIF, 'MANIFEST.json'), 'w'), indent=1, ensure_ascii=False)
print('MANIFEST.json: %d checks, %d not claimed' % (len(checks), len(na)))
