// libsim: plan text format, observation/result recording, zygote main loop.
#include "sim.h"
#include "internal.h"

#include <errno.h>
#include <fcntl.h>
#include <poll.h>
#include <signal.h>
#include <stdarg.h>
#include <stdio.h>
#include <stdlib.h>
#include <string.h>
#include <sys/personality.h>
#include <sys/stat.h>
#include <sys/wait.h>
#include <time.h>
#include <unistd.h>

#include <exception>
#include <fstream>
#include <sstream>
#include <typeinfo>
#include <cxxabi.h>

extern "C" {
int __real_poll(struct pollfd *, nfds_t, int);
ssize_t __real_read(int, void *, size_t);
ssize_t __real_write(int, const void *, size_t);
int __real_clock_gettime(clockid_t, struct timespec *);
}

namespace sim {

// ------------------------------------------------------------------ plan text
static std::vector<std::string> split_ws(const std::string &s) {
  std::vector<std::string> out;
  std::istringstream is(s);
  std::string w;
  while (is >> w) out.push_back(w);
  return out;
}

bool parse_plan(const std::string &text, Plan &p, std::string *err) {
  std::istringstream is(text);
  std::string line;
  int ln = 0;
  while (std::getline(is, line)) {
    ++ln;
    if (line.empty() || line[0] == '#') continue;
    std::vector<std::string> w = split_ws(line);
    if (w.empty()) continue;
    const std::string &k = w[0];
    if (k == "property" && w.size() >= 2) p.property = w[1];
    else if (k == "harness" && w.size() >= 2) p.harness = w[1];
    else if (k == "flavour" && w.size() >= 2) p.flavour = w[1];
    else if (k == "seed" && w.size() >= 2) p.seed = strtoull(w[1].c_str(), nullptr, 10);
    else if (k == "cfg" && w.size() >= 3) p.cfg[w[1]] = strtol(w[2].c_str(), nullptr, 10);
    else if (k == "sched" && w.size() >= 2) {
      p.sched.strategy = w[1];
      for (size_t i = 2; i < w.size(); ++i) {
        size_t eq = w[i].find('=');
        if (eq == std::string::npos) continue;
        std::string key = w[i].substr(0, eq), val = w[i].substr(eq + 1);
        if (key == "seed") p.sched.seed = strtoull(val.c_str(), nullptr, 10);
        else if (key == "param") p.sched.param = strtol(val.c_str(), nullptr, 10);
        else if (key == "horizon") p.sched.horizon = strtol(val.c_str(), nullptr, 10);
      }
    } else if (k == "decisions") {
      for (size_t i = 1; i < w.size(); ++i) p.sched.decisions.push_back(atoi(w[i].c_str()));
    } else if (k == "op" && w.size() >= 2) {
      Op op;
      op.kind = w[1];
      size_t i = 2;
      for (; i < w.size() && w[i] != ";"; ++i) op.a.push_back(strtol(w[i].c_str(), nullptr, 10));
      if (i < w.size() && w[i] == ";" && i + 3 < w.size() + 0 && w[i + 1] == "f") {
        op.fseed = strtoull(w[i + 2].c_str(), nullptr, 10);
        op.fmask = (unsigned)strtoul(w[i + 3].c_str(), nullptr, 10);
      }
      p.ops.push_back(op);
    } else {
      if (err) { *err = "line " + std::to_string(ln) + ": cannot parse: " + line; }
      return false;
    }
  }
  return true;
}

std::string format_plan(const Plan &p) {
  std::ostringstream os;
  os << "property " << p.property << "\n";
  os << "harness " << p.harness << "\n";
  os << "flavour " << p.flavour << "\n";
  os << "seed " << p.seed << "\n";
  for (auto &kv : p.cfg) os << "cfg " << kv.first << " " << kv.second << "\n";
  os << "sched " << p.sched.strategy << " seed=" << p.sched.seed << " param=" << p.sched.param << " horizon=" << p.sched.horizon << "\n";
  if (!p.sched.decisions.empty()) {
    os << "decisions";
    for (int d : p.sched.decisions) os << " " << d;
    os << "\n";
  }
  for (auto &op : p.ops) {
    os << "op " << op.kind;
    for (long v : op.a) os << " " << v;
    if (op.fmask) os << " ; f " << op.fseed << " " << op.fmask;
    os << "\n";
  }
  return os.str();
}

void draw_sched(uint64_t seed, Plan &plan) {
  Rng r(seed, "sched-choice");
  plan.sched.seed = r.next() >> 1;
  plan.sched.horizon = plan.get("pct_horizon", 1500);
  unsigned x = (unsigned)r.below(100);
  if (x < 20) { plan.sched.strategy = "random"; }
  else if (x < 55) { plan.sched.strategy = "pct"; plan.sched.param = r.range(1, 4); }
  else if (x < 85) { plan.sched.strategy = "sticky"; static const long ps[] = {20, 50, 100, 300}; plan.sched.param = ps[r.below(4)]; }
  else if (x < 95) { plan.sched.strategy = "starve"; plan.sched.param = r.range(0, plan.get("starve_max", 3)); }
  else { plan.sched.strategy = "none"; }
}

// ------------------------------------------------------------------ recording
struct Violation { std::string cls, detail; };
static std::vector<Violation> *g_viol;
static std::map<std::string, long> *g_faults;
static std::map<std::string, long> *g_probes;
static uint64_t g_fp = 0xcbf29ce484222325ULL;
static uint64_t g_ifp = 0xcbf29ce484222325ULL;
static long g_relevant = 0;
static const int RING = 400;
static std::vector<std::string> *g_ring;
static size_t g_ring_pos = 0;
static bool g_trace_stderr = false;
static int g_result_fd = 1;
static uint64_t g_seed = 0;
static bool g_record_decisions = false;
static const Plan *g_plan = nullptr;
static std::string g_run_dir;
static std::string g_tier = "quick";

static void ensure_rec() {
  if (!g_viol) {
    g_viol = new std::vector<Violation>();
    g_faults = new std::map<std::string, long>();
    g_probes = new std::map<std::string, long>();
    g_ring = new std::vector<std::string>(RING);
  }
}

static void ring_add(const char *s) {
  ensure_rec();
  (*g_ring)[g_ring_pos % RING] = s;
  ++g_ring_pos;
  if (g_trace_stderr) { fprintf(stderr, "[%8lu T%d t=%ld.%03ld] %s\n", (unsigned long)internal::steps(), internal::current_tid(), (long)(internal::now_ns() / 1000000), (long)((internal::now_ns() / 1000) % 1000), s); }
}

void trace(const char *fmt, ...) { Ig ig_;
  char buf[512];
  va_list ap; va_start(ap, fmt);
  int n = vsnprintf(buf, sizeof buf, fmt, ap);
  va_end(ap);
  if (n < 0) return;
  if (n >= (int)sizeof buf) n = sizeof buf - 1;
  g_fp = fnv1a(buf, (size_t)n, g_fp);
  g_fp = fnv1a("\n", 1, g_fp);
  ring_add(buf);
}

void note(const char *fmt, ...) { Ig ig_;
  char buf[1024];
  va_list ap; va_start(ap, fmt);
  vsnprintf(buf, sizeof buf, fmt, ap);
  va_end(ap);
  ring_add(buf);
}

std::string fmt(const char *f, ...) {
  char b[1024];
  va_list ap; va_start(ap, f);
  vsnprintf(b, sizeof b, f, ap);
  va_end(ap);
  return b;
}

void violation(const std::string &cls, const std::string &detail) { Ig ig_;
  ensure_rec();
  if (g_viol->size() < 20) g_viol->push_back(Violation{cls, detail});
  char buf[1200];
  snprintf(buf, sizeof buf, "VIOLATION %s: %.1000s", cls.c_str(), detail.c_str());
  g_fp = fnv1a(cls.data(), cls.size(), g_fp);
  ring_add(buf);
}
size_t violation_count() { ensure_rec(); return g_viol->size(); }

void probe(const char *name, long n) { Ig ig_; ensure_rec(); (*g_probes)[name] += n; }
void relevant(long n) { g_relevant += n; }
void interleave_mix(uint64_t v) { Ig ig_; g_ifp = fnv1a(&v, sizeof v, g_ifp); }
const char *run_dir() { return g_run_dir.c_str(); }
const char *tier() { return g_tier.c_str(); }

namespace internal {
void count_fault(const char *name) { Ig ig_; ensure_rec(); (*g_faults)[name] += 1; }

static std::string jesc(const std::string &s) {
  std::string o;
  for (unsigned char c : s) {
    switch (c) {
      case '"': o += "\\\""; break;
      case '\\': o += "\\\\"; break;
      case '\n': o += "\\n"; break;
      case '\r': o += "\\r"; break;
      case '\t': o += "\\t"; break;
      default:
        if (c < 0x20 || c >= 0x7f) { char b[8]; snprintf(b, sizeof b, "\\u%04x", c); o += b; }
        else o += (char)c;
    }
  }
  return o;
}

static void write_all(int fd, const std::string &s) {
  size_t off = 0;
  while (off < s.size()) {
    ssize_t w = __real_write(fd, s.data() + off, s.size() - off);
    if (w <= 0) { if (errno == EINTR) continue; break; }
    off += (size_t)w;
  }
}

void emit_result(const char *outcome) { Ig ig_;
  ensure_rec();
  std::ostringstream os;
  char hb[32];
  os << "{\"seed\":" << g_seed << ",\"outcome\":\"" << outcome << "\"";
  os << ",\"violations\":[";
  for (size_t i = 0; i < g_viol->size(); ++i) {
    if (i) os << ",";
    os << "{\"cls\":\"" << jesc((*g_viol)[i].cls) << "\",\"detail\":\"" << jesc((*g_viol)[i].detail) << "\"}";
  }
  os << "]";
  snprintf(hb, sizeof hb, "%016lx", (unsigned long)g_fp); os << ",\"fp\":\"" << hb << "\"";
  snprintf(hb, sizeof hb, "%016lx", (unsigned long)g_ifp); os << ",\"ifp\":\"" << hb << "\"";
  os << ",\"steps\":" << steps() << ",\"switches\":" << switches() << ",\"decisions\":" << decisions();
  int64_t sim_ns = g_plan ? now_ns() - start_ns_of(*g_plan) : 0;
  os << ",\"sim_ms\":" << sim_ns / 1000000;
  os << ",\"threads\":" << nthreads() << ",\"relevant\":" << g_relevant;
  os << ",\"nops\":" << (g_plan ? g_plan->ops.size() : 0);
  os << ",\"strategy\":\"" << (g_plan ? g_plan->sched.strategy : "") << "\"";
  os << ",\"faults\":{";
  bool first = true;
  for (auto &kv : *g_faults) { if (!first) os << ","; first = false; os << "\"" << kv.first << "\":" << kv.second; }
  os << "},\"probes\":{";
  first = true;
  for (auto &kv : *g_probes) { if (!first) os << ","; first = false; os << "\"" << jesc(kv.first) << "\":" << kv.second; }
  os << "}";
  if (g_record_decisions) {
    os << ",\"declog\":[";
    const std::vector<int> &d = decision_log();
    for (size_t i = 0; i < d.size(); ++i) { if (i) os << ","; os << d[i]; }
    os << "]";
  }
  if (!g_viol->empty() || strcmp(outcome, "ok") != 0) {
    os << ",\"tail\":[";
    size_t n = g_ring_pos < (size_t)RING ? g_ring_pos : (size_t)RING;
    size_t startp = g_ring_pos - n;
    size_t want = n > 60 ? 60 : n;
    startp += n - want;
    for (size_t i = 0; i < want; ++i) {
      if (i) os << ",";
      os << "\"" << jesc((*g_ring)[(startp + i) % RING]) << "\"";
    }
    os << "]";
  }
  os << "}\n";
  write_all(g_result_fd, os.str());
}
}  // namespace internal

// ------------------------------------------------------------------ zygote
static void on_terminate() {
  const char *name = "unknown";
  std::string what;
  std::type_info *ti = abi::__cxa_current_exception_type();
  static char dem[512];
  if (ti) {
    int st = 0; size_t len = sizeof dem;
    char *d = abi::__cxa_demangle(ti->name(), nullptr, nullptr, &st);
    if (st == 0 && d) { strncpy(dem, d, len - 1); name = dem; } else name = ti->name();
    try { throw; } catch (const std::exception &e) { what = e.what(); } catch (...) {}
  }
  fprintf(stderr, "UNCAUGHT-EXCEPTION type=%s what=%s\n", name, what.c_str());
  fflush(stderr);
  _exit(78);
}

static std::string read_file_head(const std::string &path, size_t max) {
  std::string out;
  int fd = open(path.c_str(), O_RDONLY);
  if (fd < 0) return out;
  char buf[4096];
  while (out.size() < max) {
    ssize_t r = __real_read(fd, buf, sizeof buf);
    if (r <= 0) break;
    out.append(buf, (size_t)r);
  }
  close(fd);
  if (out.size() > max) out.resize(max);
  return out;
}

static void rm_rf(const std::string &dir) {
  std::string cmd = "rm -rf '" + dir + "'";
  if (system(cmd.c_str()) != 0) {}
}

static double wall_now() {
  struct timespec ts;
  __real_clock_gettime(CLOCK_MONOTONIC, &ts);
  return ts.tv_sec + ts.tv_nsec / 1e9;
}

static int run_child(const Harness &h, const std::string &mode, uint64_t seed, const std::string &tier,
                     const std::string &path, bool rec, const std::string &flavour, int out_fd) {
  // in the child
  g_result_fd = out_fd;
  g_seed = seed;
  g_record_decisions = rec;
  g_tier = tier;
  ensure_rec();
  std::set_terminate(on_terminate);
  signal(SIGPIPE, SIG_IGN);
  static Plan plan;
  if (mode == "replay") {
    std::ifstream in(path);
    std::stringstream ss; ss << in.rdbuf();
    std::string err;
    if (!parse_plan(ss.str(), plan, &err)) {
      fprintf(stderr, "PLAN-PARSE-ERROR %s\n", err.c_str());
      _exit(3);
    }
    g_seed = plan.seed;
  } else {
    plan.property = h.property;
    plan.harness = h.name;
    plan.flavour = flavour;
    plan.seed = seed;
    Rng w(seed, "workload");
    h.generate(w, seed, tier, plan);
  }
  if (mode == "plan") {
    std::string txt = format_plan(plan);
    std::string o = "{\"seed\":" + std::to_string(seed) + ",\"outcome\":\"plan\",\"plan\":\"" + internal::jesc(txt) + "\"}\n";
    internal::write_all(out_fd, o);
    _exit(0);
  }
  g_plan = &plan;
  if (getenv("VERIF_TRACE")) g_trace_stderr = true;
  if (getenv("VERIF_DUMP_PLAN")) fprintf(stderr, "%s", format_plan(plan).c_str());
  h.execute(plan);
  finish();
  internal::emit_result("ok");
  fflush(nullptr);
  _exit(0);
}

int harness_main(int argc, char **argv, const Harness &h) {
  // ASLR off: re-exec once with ADDR_NO_RANDOMIZE
  if (!getenv("SIM_NO_REEXEC")) {
    int pers = personality(0xffffffff);
    if (pers != -1 && !(pers & ADDR_NO_RANDOMIZE)) {
      if (personality(pers | ADDR_NO_RANDOMIZE) != -1) {
        setenv("SIM_NO_REEXEC", "1", 1);
        execv("/proc/self/exe", argv);
      }
    }
  }
  setenv("TZ", "UTC", 1);
  tzset();
  std::string flavour = "asan";
  for (int i = 1; i < argc; ++i) {
    if (!strcmp(argv[i], "--flavour") && i + 1 < argc) flavour = argv[++i];
  }
  const char *rd = getenv("VERIF_RUN_DIR");
  std::string base = rd ? rd : "/verif/build/run";
  std::string mk = "mkdir -p '" + base + "'";
  if (system(mk.c_str()) != 0) {}
  char db[64]; snprintf(db, sizeof db, "/z%d", (int)getpid());
  std::string zdir = base + db;
  mkdir(zdir.c_str(), 0755);
  std::string errpath = zdir + "/stderr";
  g_run_dir = zdir + "/run";
  long wall_limit_ms = getenv("VERIF_WALL_MS") ? atol(getenv("VERIF_WALL_MS")) : 20000;
  bool single = false;   // --one: run a single command given on argv and print to stdout with stderr passthrough
  std::string one_cmd;
  for (int i = 1; i < argc; ++i) if (!strcmp(argv[i], "--one") && i + 1 < argc) { single = true; one_cmd = argv[++i]; }

  char *line = nullptr;
  size_t cap = 0;
  for (;;) {
    std::string cmdline;
    if (single) { if (one_cmd.empty()) break; cmdline = one_cmd; one_cmd.clear(); }
    else {
      ssize_t n = getline(&line, &cap, stdin);
      if (n <= 0) break;
      cmdline.assign(line, (size_t)n);
    }
    std::vector<std::string> w = split_ws(cmdline);
    if (w.empty()) continue;
    std::string mode = w[0];
    if (mode == "quit") break;
    uint64_t seed = 0; std::string tier = "quick", path; bool rec = false;
    if (mode == "run" || mode == "plan") {
      if (w.size() >= 2) seed = strtoull(w[1].c_str(), nullptr, 10);
      if (w.size() >= 3) tier = w[2];
      for (size_t i = 3; i < w.size(); ++i) if (w[i] == "rec") rec = true;
    } else if (mode == "replay") {
      if (w.size() >= 2) path = w[1];
      for (size_t i = 2; i < w.size(); ++i) if (w[i] == "rec") rec = true;
    } else continue;

    rm_rf(g_run_dir);
    mkdir(g_run_dir.c_str(), 0755);
    int pfd[2];
    if (pipe(pfd) != 0) { perror("pipe"); return 2; }
    double t0 = wall_now();
    pid_t pid = fork();
    if (pid == 0) {
      close(pfd[0]);
      if (!single || !getenv("VERIF_STDERR")) {
        int efd = open(errpath.c_str(), O_WRONLY | O_CREAT | O_TRUNC, 0644);
        if (efd >= 0) { dup2(efd, 2); close(efd); }
      }
      int nullfd = open("/dev/null", O_RDONLY);
      if (nullfd >= 0) { dup2(nullfd, 0); close(nullfd); }
      run_child(h, mode, seed, tier, path, rec, flavour, pfd[1]);
      _exit(0);
    }
    close(pfd[1]);
    std::string childout;
    bool timed_out = false;
    for (;;) {
      struct pollfd p; p.fd = pfd[0]; p.events = POLLIN; p.revents = 0;
      double left = wall_limit_ms / 1000.0 - (wall_now() - t0);
      if (left <= 0) { timed_out = true; break; }
      int pr = __real_poll(&p, 1, (int)(left * 1000) + 1);
      if (pr < 0) { if (errno == EINTR) continue; break; }
      if (pr == 0) { timed_out = true; break; }
      char buf[65536];
      ssize_t r = __real_read(pfd[0], buf, sizeof buf);
      if (r > 0) childout.append(buf, (size_t)r);
      else if (r == 0) break;
      else if (errno != EINTR) break;
    }
    close(pfd[0]);
    if (timed_out) kill(pid, SIGKILL);
    int status = 0;
    while (waitpid(pid, &status, 0) < 0 && errno == EINTR) {}
    double wall = wall_now() - t0;
    int code = WIFEXITED(status) ? WEXITSTATUS(status) : -1;
    int sig = WIFSIGNALED(status) ? WTERMSIG(status) : 0;
    std::string out;
    bool have = !childout.empty() && childout.back() == '\n' && childout[0] == '{';
    char extra[256];
    snprintf(extra, sizeof extra, ",\"exit\":%d,\"signal\":%d,\"wall_ms\":%.2f,\"timeout\":%s", code, sig, wall * 1000, timed_out ? "true" : "false");
    std::string errtxt;
    if (code != 0 || sig != 0 || timed_out || !have) errtxt = read_file_head(errpath, 12000);
    if (const char *vgdir = getenv("VERIF_VG_LOG_DIR")) {
      // under valgrind the tool's own messages go to a per-process log file, not to the child's stderr
      char vp[512]; snprintf(vp, sizeof vp, "%s/vg-%d.log", vgdir, (int)pid);
      if (code != 0 || sig != 0) errtxt += read_file_head(vp, 12000);
      unlink(vp);
    }
    else {
      struct stat st;
      if (stat(errpath.c_str(), &st) == 0 && st.st_size > 0 && getenv("VERIF_KEEP_STDERR")) errtxt = read_file_head(errpath, 12000);
    }
    if (have) {
      out = childout.substr(0, childout.size() - 2);   // strip "}\n"
      out += extra;
    } else {
      const char *oc = timed_out ? "wall-timeout" : "crash";
      out = "{\"seed\":" + std::to_string(seed) + ",\"outcome\":\"" + oc + "\",\"violations\":[]";
      out += extra;
    }
    if (mode == "replay") out += ",\"replay\":\"" + internal::jesc(path) + "\"";
    if (!errtxt.empty()) out += ",\"stderr\":\"" + internal::jesc(errtxt) + "\"";
    out += "}\n";
    internal::write_all(1, out);
    if (single) break;
  }
  free(line);
  rm_rf(zdir);
  return 0;
}

}  // namespace sim
