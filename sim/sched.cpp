// libsim scheduler + link-time wrappers.  See sim.h / DESIGN.md §3.
// This TU is never compiled with -fsanitize=thread: the hand-off between
// parked threads must stay invisible to TSan.
#include "sim.h"
#include "internal.h"

#include <errno.h>
#include <fcntl.h>
#include <linux/futex.h>
#include <poll.h>
#include <pthread.h>
#include <sched.h>
#include <signal.h>
#include <stdarg.h>
#include <stdio.h>
#include <stdlib.h>
#include <string.h>
#include <sys/epoll.h>
#include <sys/select.h>
#include <sys/stat.h>
#include <sys/syscall.h>
#include <sys/time.h>
#include <sys/uio.h>
#include <netinet/in.h>
#include <time.h>
#include <unistd.h>
#include <valgrind/memcheck.h>

#include <algorithm>
#include <set>
#include <unordered_map>

extern "C" {
int __real_pthread_create(pthread_t *, const pthread_attr_t *, void *(*)(void *), void *);
int __real_pthread_join(pthread_t, void **);
int __real_pthread_mutex_lock(pthread_mutex_t *);
int __real_pthread_mutex_trylock(pthread_mutex_t *);
int __real_pthread_mutex_unlock(pthread_mutex_t *);
int __real_pthread_cond_wait(pthread_cond_t *, pthread_mutex_t *);
int __real_pthread_cond_timedwait(pthread_cond_t *, pthread_mutex_t *, const struct timespec *);
int __real_pthread_cond_clockwait(pthread_cond_t *, pthread_mutex_t *, clockid_t, const struct timespec *);
int __real_pthread_cond_signal(pthread_cond_t *);
int __real_pthread_cond_broadcast(pthread_cond_t *);
int __real_clock_gettime(clockid_t, struct timespec *);
int __real_gettimeofday(struct timeval *, void *);
time_t __real_time(time_t *);
int __real_nanosleep(const struct timespec *, struct timespec *);
int __real_clock_nanosleep(clockid_t, int, const struct timespec *, struct timespec *);
int __real_usleep(useconds_t);
unsigned __real_sleep(unsigned);
int __real_sched_yield(void);
long __real_syscall(long n, ...);
int __real_open(const char *path, int flags, ...);
unsigned int __real__ZNSt13random_device9_M_getvalEv(void *self);
uint32_t __real_arc4random(void);
void __real_arc4random_buf(void *buf, size_t n);
uint32_t __real_arc4random_uniform(uint32_t upper);
int __real_getentropy(void *buf, size_t n);
ssize_t __real_getrandom(void *buf, size_t n, unsigned flags);
int __real_open64(const char *path, int flags, ...);
int __real_sigprocmask(int how, const sigset_t *set, sigset_t *old);
int __real_pthread_sigmask(int how, const sigset_t *set, sigset_t *old);
int __real_sigaction(int signo, const struct sigaction *act, struct sigaction *old);
int __real_epoll_wait(int, struct epoll_event *, int, int);
int __real_select(int, fd_set *, fd_set *, fd_set *, struct timeval *);
int __real_poll(struct pollfd *, nfds_t, int);
ssize_t __real_read(int, void *, size_t);
ssize_t __real_write(int, const void *, size_t);
ssize_t __real_readv(int, const struct iovec *, int);
ssize_t __real_writev(int, const struct iovec *, int);
ssize_t __real_send(int, const void *, size_t, int);
ssize_t __real_recv(int, void *, size_t, int);
ssize_t __real_sendto(int, const void *, size_t, int, const struct sockaddr *, socklen_t);
ssize_t __real_recvfrom(int, void *, size_t, int, struct sockaddr *, socklen_t *);
int __real_accept(int, struct sockaddr *, socklen_t *);
int __real_accept4(int, struct sockaddr *, socklen_t *, int);
int __real_connect(int, const struct sockaddr *, socklen_t);
}

namespace sim {

// ------------------------------------------------------------------ state
enum TState { T_UNUSED = 0, T_RUNNABLE, T_BLOCKED_MUTEX, T_BLOCKED_COND, T_BLOCKED_JOIN, T_BLOCKED_IO, T_SLEEPING, T_DONE };
enum IoKind { IO_NONE = 0, IO_EPOLL, IO_SELECT, IO_POLL };

struct Thread {
  int id = -1;
  int state = T_UNUSED;
  int go = 0;                      // futex word
  pthread_t pt;
  void *(*fn)(void *) = nullptr;
  void *arg = nullptr;
  const void *wait_obj = nullptr;  // mutex / cond
  int wait_tid = -1;               // join target
  int64_t deadline = -1;           // virtual ns, -1 = none
  bool timed_out = false;
  bool woken = false;
  int io_kind = IO_NONE;
  int io_epfd = -1;
  int io_nfds = 0;
  fd_set io_r, io_w, io_e;
  bool io_has_r = false, io_has_w = false, io_has_e = false;
  struct pollfd *io_pfds = nullptr;
  nfds_t io_npfds = 0;
  int prio = 0;                    // pct
  char name[24];
};

static const int MAXT = 512;
static Thread g_threads[MAXT];
static int g_nthreads = 0;
static int g_alive = 0;
static bool g_active = false;
static __thread Thread *t_self = nullptr;
static __thread int t_nosched = 0;

static int64_t g_now = 0;          // virtual monotonic ns
static int64_t g_wall_off = 0;     // CLOCK_REALTIME = g_now + g_wall_off
static uint64_t g_steps = 0, g_switches = 0, g_seq = 0, g_step_cap = 200000;
static uint64_t g_decisions = 0;

struct MState { int owner = -1; int count = 0; int id = 0; };
struct CState { std::vector<int> waiters; int id = 0; };
static std::unordered_map<const void *, MState> *g_mutexes;
static std::unordered_map<const void *, CState> *g_conds;
static int g_next_mid = 0, g_next_cid = 0;

// schedule
static Sched g_sched;
static Rng g_srng;
static std::vector<uint64_t> g_pct_points;
static int g_pct_low = 0;
static std::vector<int> g_dec_log;
static size_t g_dec_pos = 0;
static const size_t DEC_LOG_MAX = 50000;

// faults
static Rng g_frng;
static unsigned g_fmask = 0;
static unsigned g_frate[16];
static long g_late_max_ms = 50;
static bool g_poison_recv_tail = false;
static long g_stall_max_ms = 20;
static uint64_t g_plan_seed = 0, g_entropy_state = 0;
static std::set<int> *g_fault_fds;
static std::set<int> *g_nofault_fds;
static bool g_fault_all_socks = false;

// hooks
static PrewaitHook *g_hook;
static Thread *g_hook_thread = nullptr;
static uint64_t g_wait_calls = 0;
static std::function<void(int)> *g_wait_entry_hook;
static std::function<void(const DeadlockInfo &)> *g_deadlock_handler;
static std::function<void()> *g_stepcap_handler;

// udp redirect
static int g_udp_port = -1;
static struct sockaddr_storage g_udp_to;
static socklen_t g_udp_to_len = 0;
static std::function<void(uint32_t, const void *, size_t)> *g_udp_obs;

// ------------------------------------------------------------------ futex parking
static inline long futex(int *uaddr, int op, int val) { return syscall(SYS_futex, uaddr, op, val, nullptr, nullptr, 0); }
static void park(Thread *t) {
  while (__atomic_load_n(&t->go, __ATOMIC_ACQUIRE) == 0) futex(&t->go, FUTEX_WAIT_PRIVATE, 0);
  __atomic_store_n(&t->go, 0, __ATOMIC_RELAXED);
}
static void unpark(Thread *t) {
  __atomic_store_n(&t->go, 1, __ATOMIC_RELEASE);
  futex(&t->go, FUTEX_WAKE_PRIVATE, 1);
}

// ------------------------------------------------------------------ faults
const char *fault_name(unsigned kind) {
  switch (kind) {
    case F_SHORT_WRITE: return "short_write";
    case F_WRITE_EAGAIN: return "write_eagain";
    case F_SHORT_READ: return "short_read";
    case F_READ_EAGAIN: return "read_eagain";
    case F_WAIT_EINTR: return "wait_eintr";
    case F_LATE_WAKE: return "late_wake";
    case F_EVENT_SUBSET: return "event_subset";
    case F_SPURIOUS: return "spurious_wakeup";
    case F_COND_ANY: return "cond_any_waiter";
    case F_STALL: return "thread_stall";
    case F_OPEN_FAIL: return "open_fails";
    case F_WAIT_FATAL: return "wait_fatal_error";
  }
  return "?";
}
static int kind_index(unsigned kind) { int i = 0; while (kind > 1) { kind >>= 1; ++i; } return i; }

void fault_scope(uint64_t fseed, unsigned mask) {
  Ig ig_;
  g_fmask = mask;
  g_frng.reseed(fseed ^ 0x5eedfa17ULL);
}
void fault_rate(unsigned kind, unsigned permille) { g_frate[kind_index(kind)] = permille; }
void fault_late_max_ms(long ms) { g_late_max_ms = ms; }
void poison_recv_tail(bool on) { g_poison_recv_tail = on; }
void fault_stall_max_ms(long ms) { g_stall_max_ms = ms > 0 ? ms : 1; }
static char g_open_prefix[256];
void fault_open_prefix(const char *p) { strncpy(g_open_prefix, p ? p : "", sizeof(g_open_prefix) - 1); }
void fault_fd(int fd, bool on) {
  Ig ig_;
  if (on) { g_fault_fds->insert(fd); g_nofault_fds->erase(fd); }
  else { g_fault_fds->erase(fd); g_nofault_fds->insert(fd); }
}
void fault_all_sockets(bool on) { g_fault_all_socks = on; }

static bool fault(unsigned kind) {
  if (!(g_fmask & kind)) return false;
  unsigned r = g_frate[kind_index(kind)];
  if (r == 0) return false;
  if (!g_frng.chance(r)) return false;
  internal::count_fault(fault_name(kind));
  interleave_mix(0xF000 + kind_index(kind));
  interleave_mix(g_steps);
  return true;
}

static bool fd_fault_eligible(int fd) {
  if (!g_fmask) return false;
  if (g_fault_fds->count(fd)) return true;
  if (!g_fault_all_socks || g_nofault_fds->count(fd)) return false;
  struct stat st;
  if (fstat(fd, &st) != 0) return false;
  return S_ISSOCK(st.st_mode) || S_ISFIFO(st.st_mode);
}
static bool fd_is_sock(int fd) {
  struct stat st;
  return fstat(fd, &st) == 0 && S_ISSOCK(st.st_mode);
}

// ------------------------------------------------------------------ helpers
static inline bool passthrough() { return !g_active || t_self == nullptr || t_nosched > 0; }

static MState &mstate(const void *m) {
  auto it = g_mutexes->find(m);
  if (it == g_mutexes->end()) {
    MState s; s.id = g_next_mid++;
    it = g_mutexes->emplace(m, s).first;
  }
  return it->second;
}
static CState &cstate(const void *c) {
  auto it = g_conds->find(c);
  if (it == g_conds->end()) {
    CState s; s.id = g_next_cid++;
    it = g_conds->emplace(c, s).first;
  }
  return it->second;
}
static bool mutex_is_recursive(pthread_mutex_t *m) { return (m->__data.__kind & 3) == PTHREAD_MUTEX_RECURSIVE_NP; }

static const char *state_name(int s) {
  switch (s) {
    case T_RUNNABLE: return "runnable";
    case T_BLOCKED_MUTEX: return "blocked-mutex";
    case T_BLOCKED_COND: return "blocked-cond";
    case T_BLOCKED_JOIN: return "blocked-join";
    case T_BLOCKED_IO: return "blocked-io";
    case T_SLEEPING: return "sleeping";
    case T_DONE: return "done";
  }
  return "unused";
}

static std::string describe_threads() {
  std::string out;
  char buf[256];
  for (int i = 0; i < g_nthreads; ++i) {
    Thread &t = g_threads[i];
    const char *extra = "";
    char eb[96]; eb[0] = 0;
    if (t.state == T_BLOCKED_MUTEX) { MState &s = mstate(t.wait_obj); snprintf(eb, sizeof eb, " mutex#%d owner=T%d", s.id, s.owner); }
    else if (t.state == T_BLOCKED_COND) { snprintf(eb, sizeof eb, " cond#%d%s", cstate(t.wait_obj).id, t.deadline >= 0 ? " timed" : ""); }
    else if (t.state == T_BLOCKED_JOIN) { snprintf(eb, sizeof eb, " join T%d", t.wait_tid); }
    else if (t.state == T_BLOCKED_IO) { snprintf(eb, sizeof eb, " %s%s", t.io_kind == IO_EPOLL ? "epoll_wait" : t.io_kind == IO_SELECT ? "select" : "poll", t.deadline >= 0 ? " timed" : " forever"); }
    extra = eb;
    snprintf(buf, sizeof buf, "T%d(%s) %s%s; ", t.id, t.name, state_name(t.state), extra);
    out += buf;
  }
  return out;
}

// ------------------------------------------------------------------ scheduling core
static bool io_ready(Thread *t) {
  if (t->io_kind == IO_EPOLL) {
    struct pollfd p; p.fd = t->io_epfd; p.events = POLLIN; p.revents = 0;
    return __real_poll(&p, 1, 0) > 0;
  } else if (t->io_kind == IO_SELECT) {
    fd_set r = t->io_r, w = t->io_w, e = t->io_e;
    struct timeval tv = {0, 0};
    return __real_select(t->io_nfds, t->io_has_r ? &r : nullptr, t->io_has_w ? &w : nullptr, t->io_has_e ? &e : nullptr, &tv) > 0;
  } else if (t->io_kind == IO_POLL) {
    std::vector<struct pollfd> c(t->io_pfds, t->io_pfds + t->io_npfds);
    return __real_poll(c.data(), c.size(), 0) > 0;
  }
  return false;
}

static bool is_enabled(Thread *t) {
  switch (t->state) {
    case T_RUNNABLE: return true;
    case T_BLOCKED_MUTEX: return mstate(t->wait_obj).owner == -1;
    case T_BLOCKED_COND: return t->deadline >= 0 && g_now >= t->deadline;
    case T_BLOCKED_JOIN: return g_threads[t->wait_tid].state == T_DONE;
    case T_BLOCKED_IO: return (t->deadline >= 0 && g_now >= t->deadline) || io_ready(t);
    case T_SLEEPING: return g_now >= t->deadline;
    default: return false;
  }
}

static void emit_and_exit(const char *outcome, int code) __attribute__((noreturn));
static void emit_and_exit(const char *outcome, int code) {
  g_active = false;
  internal::emit_result(outcome);
  _exit(code);
}

static void deadlock() {
  DeadlockInfo info;
  info.summary = describe_threads();
  note("DEADLOCK %s", info.summary.c_str());
  g_active = false;   // handler may call into wrapped functions
  if (g_deadlock_handler && *g_deadlock_handler) (*g_deadlock_handler)(info);
  else violation("SIM/deadlock", info.summary);
  internal::emit_result("deadlock");
  _exit(79);
}

static void stepcap() {
  note("STEPCAP %s", describe_threads().c_str());
  g_active = false;
  if (g_stepcap_handler && *g_stepcap_handler) (*g_stepcap_handler)();
  else violation("SIM/step-cap", describe_threads());
  internal::emit_result("stepcap");
  _exit(80);
}

static int default_choice(Thread *me, const std::vector<int> &en) {
  if (me && me->state != T_DONE)
    for (size_t i = 0; i < en.size(); ++i) if (en[i] == me->id) return (int)i;
  return 0;
}

static int choose(Thread *me, const std::vector<int> &en) {
  if (en.size() == 1) return 0;
  int def = default_choice(me, en);
  int idx = def;
  const std::string &st = g_sched.strategy;
  if (st == "explicit") {
    int d = g_dec_pos < g_sched.decisions.size() ? g_sched.decisions[g_dec_pos] : 0;
    ++g_dec_pos;
    idx = d <= 0 ? def : (d - 1) % (int)en.size();
  } else if (st == "random") {
    idx = (int)g_srng.below(en.size());
  } else if (st == "sticky") {
    bool me_enabled = me && me->state != T_DONE && en[def] == me->id;
    if (me_enabled && !g_srng.chance((unsigned)g_sched.param)) idx = def;
    else idx = (int)g_srng.below(en.size());
  } else if (st == "pct") {
    for (size_t k = 0; k < g_pct_points.size(); ++k)
      if (g_pct_points[k] == g_decisions && me) me->prio = --g_pct_low;
    int best = 0;
    for (size_t i = 1; i < en.size(); ++i) if (g_threads[en[i]].prio > g_threads[en[best]].prio) best = (int)i;
    idx = best;
  } else if (st == "starve") {
    std::vector<int> others;
    for (size_t i = 0; i < en.size(); ++i) if (en[i] != (int)g_sched.param) others.push_back((int)i);
    if (others.empty()) idx = 0;
    else idx = others[g_srng.below(others.size())];
  }
  ++g_decisions;
  int enc = (idx == def) ? 0 : idx + 1;
  if (g_dec_log.size() < DEC_LOG_MAX) g_dec_log.push_back(enc);
  interleave_mix((uint64_t)en[idx] * 131 + en.size());
  return idx;
}

// returns the thread to run next (never null; deadlock() does not return)
static Thread *pick_next(Thread *me) {
  std::vector<int> en;
  for (;;) {
    en.clear();
    for (int i = 0; i < g_nthreads; ++i) if (is_enabled(&g_threads[i])) en.push_back(i);
    if (!en.empty()) break;
    int64_t dl = -1;
    for (int i = 0; i < g_nthreads; ++i) {
      Thread &t = g_threads[i];
      if ((t.state == T_BLOCKED_COND || t.state == T_BLOCKED_IO || t.state == T_SLEEPING) && t.deadline >= 0)
        if (dl < 0 || t.deadline < dl) dl = t.deadline;
    }
    if (dl < 0) deadlock();
    if (dl > g_now) g_now = dl;
    if (fault(F_LATE_WAKE)) {
      long late = 1 + (long)g_frng.below((uint64_t)g_late_max_ms);
      g_now += (int64_t)late * 1000000;
    }
  }
  Thread *next = &g_threads[en[choose(me, en)]];
  // resolve the block of the chosen thread
  switch (next->state) {
    case T_BLOCKED_COND: next->timed_out = true; break;       // enabled only through its deadline
    case T_BLOCKED_IO: next->timed_out = !io_ready(next); break;
    default: break;
  }
  if (next->state != T_BLOCKED_MUTEX) next->state = T_RUNNABLE;
  else next->state = T_RUNNABLE;   // mutex is free; the lock loop re-checks
  return next;
}

static void reschedule() {
  Thread *me = t_self;
  if (++g_steps > g_step_cap) stepcap();
  if (g_alive == 1 && me->state == T_RUNNABLE) return;   // fast path: nobody else exists
  Thread *next = pick_next(me);
  if (next == me) return;
  ++g_switches;
  unpark(next);
  park(me);
}

static inline void sched_point() { reschedule(); }

// ------------------------------------------------------------------ public run control
bool active() { return g_active; }
int self() { return t_self ? t_self->id : -1; }
void name_thread(const char *name) { if (t_self) { strncpy(t_self->name, name, sizeof(t_self->name) - 1); } }
uint64_t seq() { return ++g_seq; }
uint64_t steps() { return g_steps; }
int threads_alive() { return g_alive; }
bool thread_idle(int tid) {
  Ig ig_;
  if (tid < 0 || tid >= g_nthreads) return false;
  Thread *t = &g_threads[tid];
  if (t->state != T_BLOCKED_IO && t->state != T_BLOCKED_COND && t->state != T_BLOCKED_JOIN) return false;   // a stalled or sleeping thread is not at rest
  return !is_enabled(t);
}
int64_t now_ns() { return g_now; }
void advance_ns(int64_t d) { if (d > 0) g_now += d; }
int64_t wall_offset_ns() { return g_wall_off; }
void set_wall_offset_ns(int64_t off) { g_wall_off = off; }
void set_step_cap(uint64_t cap) { g_step_cap = cap; }
NoSched::NoSched() { ++t_nosched; }
NoSched::~NoSched() { --t_nosched; }
void set_prewait_hook(PrewaitHook h) {
  Ig ig_;
  if (!g_hook) g_hook = new PrewaitHook();
  *g_hook = h;
  g_hook_thread = h ? t_self : nullptr;
}
uint64_t wait_calls() { return g_wait_calls; }
void set_wait_entry_hook(std::function<void(int)> h) {
  Ig ig_;
  if (!g_wait_entry_hook) g_wait_entry_hook = new std::function<void(int)>();
  *g_wait_entry_hook = h;
}
void set_deadlock_handler(std::function<void(const DeadlockInfo &)> h) {
  Ig ig_;
  if (!g_deadlock_handler) g_deadlock_handler = new std::function<void(const DeadlockInfo &)>();
  *g_deadlock_handler = h;
}
void set_stepcap_handler(std::function<void()> h) {
  Ig ig_;
  if (!g_stepcap_handler) g_stepcap_handler = new std::function<void()>();
  *g_stepcap_handler = h;
}
void redirect_udp_port(int port, const struct sockaddr *to, socklen_t len) {
  g_udp_port = port;
  memcpy(&g_udp_to, to, len);
  g_udp_to_len = len;
}
void set_udp_redirect_observer(std::function<void(uint32_t, const void *, size_t)> f) {
  if (!g_udp_obs) g_udp_obs = new std::function<void(uint32_t, const void *, size_t)>();
  *g_udp_obs = f;
}

void yield() {
  Ig ig_;
  if (passthrough()) return;
  sched_point();
}

void sleep_ns(int64_t d) {
  Ig ig_;
  if (passthrough()) { g_now += d > 0 ? d : 0; return; }
  Thread *t = t_self;
  if (d <= 0) { sched_point(); return; }
  t->state = T_SLEEPING;
  t->deadline = g_now + d;
  reschedule();
  t->deadline = -1;
}

void start(const Plan &plan) {
  Ig ig_;
  if (!g_mutexes) {
    g_mutexes = new std::unordered_map<const void *, MState>();
    g_conds = new std::unordered_map<const void *, CState>();
    g_fault_fds = new std::set<int>();
    g_nofault_fds = new std::set<int>();
  }
  for (int i = 0; i < 16; ++i) g_frate[i] = 0;
  g_frate[kind_index(F_SHORT_WRITE)] = 150;
  g_frate[kind_index(F_WRITE_EAGAIN)] = 60;
  g_frate[kind_index(F_SHORT_READ)] = 150;
  g_frate[kind_index(F_READ_EAGAIN)] = 20;
  g_frate[kind_index(F_WAIT_EINTR)] = 30;
  g_frate[kind_index(F_LATE_WAKE)] = 200;
  g_frate[kind_index(F_EVENT_SUBSET)] = 200;
  g_frate[kind_index(F_SPURIOUS)] = 50;
  g_frate[kind_index(F_COND_ANY)] = 500;
  g_frate[kind_index(F_STALL)] = 25;
  g_frate[kind_index(F_OPEN_FAIL)] = 300;
  g_frate[kind_index(F_WAIT_FATAL)] = 1000;

  g_plan_seed = plan.seed;
  g_entropy_state = 0;
  g_sched = plan.sched;
  g_srng = Rng(g_sched.seed, "schedule");
  g_pct_points.clear();
  if (g_sched.strategy == "pct") {
    long d = g_sched.param < 1 ? 1 : g_sched.param;
    long hz = g_sched.horizon < 10 ? 10 : g_sched.horizon;
    for (long i = 0; i < d; ++i) g_pct_points.push_back(g_srng.below((uint64_t)hz));
  }
  g_pct_low = 0;
  g_now = (int64_t)plan.get("epoch_ms", 100000000) * 1000000;
  g_wall_off = (int64_t)plan.get("wall_off_s", 1600000000) * 1000000000LL;
  g_step_cap = (uint64_t)plan.get("step_cap", 200000);

  Thread &t = g_threads[0];
  t = Thread();
  t.id = 0; t.state = T_RUNNABLE; t.pt = pthread_self();
  t.prio = 1000;
  strcpy(t.name, "main");
  g_nthreads = 1; g_alive = 1;
  t_self = &t;
  g_active = true;
}

void finish() { g_active = false; }

static std::vector<HEvent> *g_hist;
static long g_cells[256];
uint64_t hist(int kind, long a, long b, long c, long d) {
  Ig ig_;
  if (!g_hist) g_hist = new std::vector<HEvent>();
  HEvent e;
  e.seq = ++g_seq; e.tid = t_self ? t_self->id : -1; e.t_ns = g_now;
  e.kind = kind; e.a = a; e.b = b; e.c = c; e.d = d;
  g_hist->push_back(e);
  trace("H T%d k=%d %ld %ld %ld %ld", e.tid, kind, a, b, c, d);
  return e.seq;
}
const std::vector<HEvent> &history() {
  Ig ig_;
  if (!g_hist) g_hist = new std::vector<HEvent>();
  return *g_hist;
}
long cell_get(int idx) { return g_cells[idx & 255]; }
void cell_set(int idx, long v) { g_cells[idx & 255] = v; }
long cell_add(int idx, long d) { return g_cells[idx & 255] += d; }

// ------------------------------------------------------------------ internal accessors for runner.cpp
namespace internal {
uint64_t steps() { return g_steps; }
uint64_t switches() { return g_switches; }
uint64_t decisions() { return g_decisions; }
int64_t now_ns() { return g_now; }
int64_t start_ns_of(const Plan &plan) { return (int64_t)plan.get("epoch_ms", 100000000) * 1000000; }
int nthreads() { return g_nthreads; }
const std::vector<int> &decision_log() { return g_dec_log; }
int current_tid() { return t_self ? t_self->id : -1; }
}  // namespace internal

// ------------------------------------------------------------------ thread trampoline
static void *trampoline(void *p) {
  Thread *t = static_cast<Thread *>(p);
  {
    Ig ig_;
    t_self = t;
    park(t);
  }
  void *ret = t->fn(t->arg);
  // exit: hand over without parking
  Ig ig_;
  t->state = T_DONE;
  --g_alive;
  if (g_active) {
    ++g_steps;
    Thread *next = pick_next(t);
    ++g_switches;
    unpark(next);
  }
  return ret;
}

static int64_t ts_to_ns(const struct timespec *ts) { return (int64_t)ts->tv_sec * 1000000000LL + ts->tv_nsec; }

// Model-level mutex acquire (no yield before; blocks in the scheduler while owned).
static void model_lock(Thread *t, pthread_mutex_t *m) {
  for (;;) {
    MState &s = mstate(m);
    if (s.owner == -1) { s.owner = t->id; s.count = 1; return; }
    if (s.owner == t->id && mutex_is_recursive(m)) { ++s.count; return; }
    t->state = T_BLOCKED_MUTEX;
    t->wait_obj = m;
    reschedule();
  }
}

static int cond_wait_common(pthread_cond_t *c, pthread_mutex_t *m, int64_t deadline) {
  Thread *t = t_self;
  // The window between the caller's predicate check and its registration as a waiter.
  sched_point();
  MState &s = mstate(m);
  if (s.owner != t->id) {
    violation("SIM/cond-wait-without-mutex", "pthread_cond_wait called by a thread that does not own the mutex");
  }
  s.owner = -1; s.count = 0;
  __real_pthread_mutex_unlock(m);
  CState &cs = cstate(c);
  cs.waiters.push_back(t->id);
  t->state = T_BLOCKED_COND;
  t->wait_obj = c;
  t->deadline = deadline;
  t->timed_out = false;
  t->woken = false;
  trace("T%d cond#%d wait%s", t->id, cs.id, deadline >= 0 ? " timed" : "");
  if (fault(F_SPURIOUS)) {
    auto &w = cs.waiters;
    w.erase(std::find(w.begin(), w.end(), t->id));
    t->state = T_RUNNABLE;
    t->woken = true;
  }
  reschedule();
  if (!t->woken) {
    // released through the deadline
    auto &w = cstate(c).waiters;
    auto it = std::find(w.begin(), w.end(), t->id);
    if (it != w.end()) w.erase(it);
  }
  bool timed_out = !t->woken;
  t->deadline = -1;
  model_lock(t, m);
  __real_pthread_mutex_lock(m);
  return timed_out ? ETIMEDOUT : 0;
}

}  // namespace sim

using namespace sim;

// ====================================================================== wrappers
extern "C" {

int __wrap_pthread_create(pthread_t *pt, const pthread_attr_t *attr, void *(*fn)(void *), void *arg) {
  if (passthrough()) return __real_pthread_create(pt, attr, fn, arg);
  Ig ig_;
  if (g_nthreads >= MAXT) { errno = EAGAIN; return EAGAIN; }
  Thread &t = g_threads[g_nthreads];
  t = Thread();
  t.id = g_nthreads;
  t.fn = fn; t.arg = arg;
  t.state = T_RUNNABLE;
  t.prio = (g_sched.strategy == "pct") ? (int)(1 + g_srng.below(999)) : 0;
  snprintf(t.name, sizeof t.name, "t%d", t.id);
  int r = __real_pthread_create(&t.pt, attr, trampoline, &t);
  if (r != 0) { t.state = T_UNUSED; return r; }
  *pt = t.pt;
  ++g_nthreads; ++g_alive;
  trace("T%d create T%d", t_self->id, t.id);
  sched_point();
  return 0;
}

int __wrap_pthread_join(pthread_t pt, void **ret) {
  if (passthrough()) return __real_pthread_join(pt, ret);
  Ig ig_;
  Thread *me = t_self;
  int target = -1;
  for (int i = 0; i < g_nthreads; ++i) if (pthread_equal(g_threads[i].pt, pt)) target = i;
  if (target < 0) return __real_pthread_join(pt, ret);
  sched_point();
  while (g_threads[target].state != T_DONE) {
    me->state = T_BLOCKED_JOIN;
    me->wait_tid = target;
    reschedule();
  }
  trace("T%d joined T%d", me->id, target);
  return __real_pthread_join(pt, ret);
}

int __wrap_pthread_mutex_lock(pthread_mutex_t *m) {
  if (!g_active || t_self == nullptr) return __real_pthread_mutex_lock(m);
  Ig ig_;
  Thread *t = t_self;
  if (t_nosched > 0) {
    MState &s = mstate(m);
    if (s.owner == -1) { s.owner = t->id; s.count = 1; }
    else if (s.owner == t->id) ++s.count;
    return __real_pthread_mutex_lock(m);
  }
  if (g_alive > 1 && fault(F_STALL)) {
    // the thread loses the processor for a while right before it takes the lock
    long ms = 1 + (long)g_frng.below((uint64_t)g_stall_max_ms);
    trace("T%d stalls %ld ms", t->id, ms);
    t->state = T_SLEEPING;
    t->deadline = g_now + (int64_t)ms * 1000000;
    reschedule();
    t->deadline = -1;
  }
  sched_point();
  model_lock(t, m);
  return __real_pthread_mutex_lock(m);
}

int __wrap_pthread_mutex_trylock(pthread_mutex_t *m) {
  if (!g_active || t_self == nullptr) return __real_pthread_mutex_trylock(m);
  Ig ig_;
  Thread *t = t_self;
  if (t_nosched == 0) sched_point();
  MState &s = mstate(m);
  if (s.owner == -1) { s.owner = t->id; s.count = 1; return __real_pthread_mutex_trylock(m); }
  if (s.owner == t->id && mutex_is_recursive(m)) { ++s.count; return __real_pthread_mutex_trylock(m); }
  return EBUSY;
}

int __wrap_pthread_mutex_unlock(pthread_mutex_t *m) {
  if (!g_active || t_self == nullptr) return __real_pthread_mutex_unlock(m);
  Ig ig_;
  Thread *t = t_self;
  MState &s = mstate(m);
  if (s.owner == t->id) {
    if (--s.count <= 0) { s.owner = -1; s.count = 0; }
  } else if (s.owner != -1) {
    violation("SIM/mutex-unlock-by-non-owner", "pthread_mutex_unlock by a thread that does not own the mutex");
  }
  int r = __real_pthread_mutex_unlock(m);
  if (t_nosched == 0) sched_point();
  return r;
}

int __wrap_pthread_cond_wait(pthread_cond_t *c, pthread_mutex_t *m) {
  if (passthrough()) return __real_pthread_cond_wait(c, m);
  Ig ig_;
  return cond_wait_common(c, m, -1);
}

int __wrap_pthread_cond_timedwait(pthread_cond_t *c, pthread_mutex_t *m, const struct timespec *abs) {
  if (passthrough()) return __real_pthread_cond_timedwait(c, m, abs);
  Ig ig_;
  int64_t dl = ts_to_ns(abs) - g_wall_off;   // CLOCK_REALTIME based
  if (dl < 0) dl = 0;
  return cond_wait_common(c, m, dl);
}

int __wrap_pthread_cond_clockwait(pthread_cond_t *c, pthread_mutex_t *m, clockid_t clk, const struct timespec *abs) {
  if (passthrough()) return __real_pthread_cond_clockwait(c, m, clk, abs);
  Ig ig_;
  int64_t dl = ts_to_ns(abs);
  if (clk == CLOCK_REALTIME) dl -= g_wall_off;
  if (dl < 0) dl = 0;
  return cond_wait_common(c, m, dl);
}

int __wrap_pthread_cond_signal(pthread_cond_t *c) {
  if (!g_active || t_self == nullptr) return __real_pthread_cond_signal(c);
  Ig ig_;
  if (t_nosched == 0) sched_point();
  CState &cs = cstate(c);
  if (!cs.waiters.empty()) {
    size_t k = 0;
    if (cs.waiters.size() > 1 && fault(F_COND_ANY)) k = g_frng.below(cs.waiters.size());
    int w = cs.waiters[k];
    cs.waiters.erase(cs.waiters.begin() + k);
    g_threads[w].woken = true;
    g_threads[w].state = T_RUNNABLE;
    trace("T%d cond#%d signal -> T%d", t_self->id, cs.id, w);
  } else {
    trace("T%d cond#%d signal -> nobody", t_self->id, cs.id);
  }
  return 0;
}

int __wrap_pthread_cond_broadcast(pthread_cond_t *c) {
  if (!g_active || t_self == nullptr) return __real_pthread_cond_broadcast(c);
  Ig ig_;
  if (t_nosched == 0) sched_point();
  CState &cs = cstate(c);
  trace("T%d cond#%d broadcast -> %zu", t_self->id, cs.id, cs.waiters.size());
  for (int w : cs.waiters) { g_threads[w].woken = true; g_threads[w].state = T_RUNNABLE; }
  cs.waiters.clear();
  return 0;
}

// ---------------------------------------------------------------- time
int __wrap_clock_gettime(clockid_t clk, struct timespec *ts) {
  if (!g_active) return __real_clock_gettime(clk, ts);
  Ig ig_;
  int64_t v;
  switch (clk) {
    case CLOCK_REALTIME: case CLOCK_REALTIME_COARSE: v = g_now + g_wall_off; break;
    case CLOCK_MONOTONIC: case CLOCK_MONOTONIC_RAW: case CLOCK_MONOTONIC_COARSE: case CLOCK_BOOTTIME: v = g_now; break;
    default: return __real_clock_gettime(clk, ts);
  }
  ts->tv_sec = v / 1000000000LL;
  ts->tv_nsec = v % 1000000000LL;
  return 0;
}

int __wrap_gettimeofday(struct timeval *tv, void *tz) {
  if (!g_active) return __real_gettimeofday(tv, tz);
  Ig ig_;
  int64_t v = g_now + g_wall_off;
  if (tv) { tv->tv_sec = v / 1000000000LL; tv->tv_usec = (v % 1000000000LL) / 1000; }
  return 0;
}

time_t __wrap_time(time_t *out) {
  if (!g_active) return __real_time(out);
  Ig ig_;
  time_t v = (time_t)((g_now + g_wall_off) / 1000000000LL);
  if (out) *out = v;
  return v;
}

int __wrap_nanosleep(const struct timespec *req, struct timespec *rem) {
  if (passthrough()) return __real_nanosleep(req, rem);
  Ig ig_;
  sleep_ns(ts_to_ns(req));
  if (rem) { rem->tv_sec = 0; rem->tv_nsec = 0; }
  return 0;
}

int __wrap_clock_nanosleep(clockid_t clk, int flags, const struct timespec *req, struct timespec *rem) {
  if (passthrough()) return __real_clock_nanosleep(clk, flags, req, rem);
  Ig ig_;
  int64_t d = ts_to_ns(req);
  if (flags & TIMER_ABSTIME) { d -= (clk == CLOCK_REALTIME ? g_now + g_wall_off : g_now); }
  sleep_ns(d);
  if (rem) { rem->tv_sec = 0; rem->tv_nsec = 0; }
  return 0;
}

int __wrap_usleep(useconds_t us) {
  if (passthrough()) return __real_usleep(us);
  Ig ig_;
  sleep_ns((int64_t)us * 1000);
  return 0;
}

unsigned __wrap_sleep(unsigned s) {
  if (passthrough()) return __real_sleep(s);
  Ig ig_;
  sleep_ns((int64_t)s * 1000000000LL);
  return 0;
}

// The kernel thread id ends up in log records: its number of digits would make record lengths, and with them
// buffer boundaries, differ from process to process.  Simulated threads get stable six-digit ids.
long __wrap_syscall(long n, ...) {
  va_list ap; va_start(ap, n);
  long a1 = va_arg(ap, long), a2 = va_arg(ap, long), a3 = va_arg(ap, long), a4 = va_arg(ap, long), a5 = va_arg(ap, long), a6 = va_arg(ap, long);
  va_end(ap);
  if (n == SYS_gettid && g_active && t_self != nullptr) return 100000 + t_self->id;
  return __real_syscall(n, a1, a2, a3, a4, a5, a6);
}

// Entropy: code that asks the system for random numbers (std::random_device, transaction ids, ...) gets them from a
// stream derived from the plan seed, so that a run stays a function of its seed.
static uint64_t entropy_next() {
  if (g_entropy_state == 0) g_entropy_state = 0x9e3779b97f4a7c15ULL ^ (g_plan_seed + 0x632be59bd9b4e019ULL);
  uint64_t z = (g_entropy_state += 0x9e3779b97f4a7c15ULL);
  z = (z ^ (z >> 30)) * 0xbf58476d1ce4e5b9ULL; z = (z ^ (z >> 27)) * 0x94d049bb133111ebULL;
  return z ^ (z >> 31);
}
static void entropy_fill(void *buf, size_t n) { unsigned char *p = static_cast<unsigned char *>(buf); for (size_t i = 0; i < n; ++i) p[i] = (unsigned char)(entropy_next() >> 24); }
uint32_t __wrap_arc4random(void) { if (!g_active) return __real_arc4random(); return (uint32_t)(entropy_next() >> 16); }
void __wrap_arc4random_buf(void *buf, size_t n) { if (!g_active) { __real_arc4random_buf(buf, n); return; } entropy_fill(buf, n); }
uint32_t __wrap_arc4random_uniform(uint32_t upper) { if (!g_active) return __real_arc4random_uniform(upper); return upper ? (uint32_t)((entropy_next() >> 16) % upper) : 0; }
// std::random_device::_M_getval(): libstdc++ reads the CPU's RDSEED/RDRAND directly, which no libc seam sees
unsigned int __wrap__ZNSt13random_device9_M_getvalEv(void *self) { if (!g_active) return __real__ZNSt13random_device9_M_getvalEv(self); return (unsigned int)(entropy_next() >> 16); }
int __wrap_getentropy(void *buf, size_t n) { if (!g_active) return __real_getentropy(buf, n); entropy_fill(buf, n); return 0; }
ssize_t __wrap_getrandom(void *buf, size_t n, unsigned flags) { if (!g_active) return __real_getrandom(buf, n, flags); entropy_fill(buf, n); return (ssize_t)n; }

// Creating or opening a file can fail for reasons outside the program (descriptor table full): a transient EMFILE.
static bool open_fault(const char *path) {
  if (!g_active || t_self == nullptr || !path || !g_open_prefix[0]) return false;
  if (strncmp(path, g_open_prefix, strlen(g_open_prefix)) != 0) return false;
  Ig ig_;
  return fault(F_OPEN_FAIL);
}
int __wrap_open(const char *path, int flags, ...) {
  va_list ap; va_start(ap, flags); mode_t mode = (mode_t)va_arg(ap, int); va_end(ap);
  if (open_fault(path)) { errno = EMFILE; return -1; }
  return __real_open(path, flags, mode);
}
int __wrap_open64(const char *path, int flags, ...) {
  va_list ap; va_start(ap, flags); mode_t mode = (mode_t)va_arg(ap, int); va_end(ap);
  if (open_fault(path)) { errno = EMFILE; return -1; }
  return __real_open64(path, flags, mode);
}

// Changing the signal mask or a disposition is a point at which the thread can lose the processor: code that
// blocks signals around a critical section is exactly the code whose interleavings with deliveries on other
// threads matter.
int __wrap_sigprocmask(int how, const sigset_t *set, sigset_t *old) {
  if (passthrough()) return __real_sigprocmask(how, set, old);
  { Ig ig_; sched_point(); }
  return __real_sigprocmask(how, set, old);
}
int __wrap_pthread_sigmask(int how, const sigset_t *set, sigset_t *old) {
  if (passthrough()) return __real_pthread_sigmask(how, set, old);
  { Ig ig_; sched_point(); }
  return __real_pthread_sigmask(how, set, old);
}
int __wrap_sigaction(int signo, const struct sigaction *act, struct sigaction *old) {
  if (passthrough() || act == nullptr) return __real_sigaction(signo, act, old);
  { Ig ig_; sched_point(); }
  return __real_sigaction(signo, act, old);
}

int __wrap_sched_yield(void) {
  if (passthrough()) return __real_sched_yield();
  Ig ig_;
  sched_point();
  return 0;
}

// ---------------------------------------------------------------- blocking waits
// Common driver: probe() performs the zero-timeout real call and returns its
// result (0 = nothing ready).  block_setup() fills the io_* fields.
}  // extern "C"
template <class Probe, class Setup>
static int wait_common(int64_t timeout_ms, Probe probe, Setup block_setup) {
  Thread *t = t_self;
  bool hook_owner = (g_hook && *g_hook && g_hook_thread == t);
  if (hook_owner) {
    ++g_wait_calls;
    if (g_wait_entry_hook && *g_wait_entry_hook) { NoSched ns; (*g_wait_entry_hook)(timeout_ms > 2000000000 ? 2000000000 : (int)timeout_ms); }
  }
  int64_t deadline = timeout_ms < 0 ? -1 : (timeout_ms > 9000000000000LL ? -1 : g_now + timeout_ms * 1000000);
  bool eintr_done = false;
  if (++g_steps > g_step_cap) stepcap();
  for (;;) {
    HookResult hr;
    if (hook_owner) { NoSched ns; hr = (*g_hook)(g_wait_calls); }
    else sched_point();
    if (!eintr_done && fault(F_WAIT_FATAL)) { errno = ENOMEM; return -1; }
    if (!eintr_done && fault(F_WAIT_EINTR)) { errno = EINTR; return -1; }
    eintr_done = true;
    int n = probe();
    if (n != 0) return n;
    if (timeout_ms == 0) return 0;
    if (deadline >= 0 && g_now >= deadline) return 0;
    if (hr.acted) continue;
    int64_t dl = deadline;
    if (hr.next_due_ns >= 0 && (dl < 0 || hr.next_due_ns < dl)) dl = hr.next_due_ns;
    block_setup(t);
    t->state = T_BLOCKED_IO;
    t->deadline = dl;
    t->timed_out = false;
    reschedule();
    t->deadline = -1;
    t->io_kind = IO_NONE;
  }
}

extern "C" {
int __wrap_epoll_wait(int epfd, struct epoll_event *ev, int maxev, int timeout) {
  if (passthrough()) return __real_epoll_wait(epfd, ev, maxev, timeout);
  Ig ig_;
  return wait_common(
      timeout,
      [&]() -> int {
        int n = __real_epoll_wait(epfd, ev, maxev, 0);
        if (n > 1 && fault(F_EVENT_SUBSET)) {
          // report only a prefix, as a smaller maxevents would
          int k = 1 + (int)g_frng.below((uint64_t)n - 1);
          n = k;
        }
        return n;
      },
      [&](Thread *t) { t->io_kind = IO_EPOLL; t->io_epfd = epfd; });
}

int __wrap_select(int nfds, fd_set *r, fd_set *w, fd_set *e, struct timeval *tv) {
  if (passthrough()) return __real_select(nfds, r, w, e, tv);
  Ig ig_;
  fd_set r0, w0, e0;
  if (r) r0 = *r; if (w) w0 = *w; if (e) e0 = *e;
  int64_t timeout = tv ? ((int64_t)tv->tv_sec * 1000 + (tv->tv_usec + 999) / 1000) : -1;
  int res = wait_common(
      timeout,
      [&]() -> int {
        if (r) *r = r0; if (w) *w = w0; if (e) *e = e0;
        struct timeval z = {0, 0};
        return __real_select(nfds, r, w, e, &z);
      },
      [&](Thread *t) {
        t->io_kind = IO_SELECT; t->io_nfds = nfds;
        t->io_has_r = r != nullptr; t->io_has_w = w != nullptr; t->io_has_e = e != nullptr;
        if (r) t->io_r = r0; if (w) t->io_w = w0; if (e) t->io_e = e0;
      });
  if (res == 0) {
    if (r) FD_ZERO(r); if (w) FD_ZERO(w); if (e) FD_ZERO(e);
  } else if (res < 0) {
    // as the kernel does: a failed select() (EINTR, EBADF) leaves the three sets as the caller passed them
    int en = errno;
    if (r) *r = r0; if (w) *w = w0; if (e) *e = e0;
    errno = en;
  }
  return res;
}

int __wrap_poll(struct pollfd *fds, nfds_t n, int timeout) {
  if (passthrough()) return __real_poll(fds, n, timeout);
  Ig ig_;
  return wait_common(
      timeout, [&]() -> int { return __real_poll(fds, n, 0); },
      [&](Thread *t) { t->io_kind = IO_POLL; t->io_pfds = fds; t->io_npfds = n; });
}

// ---------------------------------------------------------------- byte I/O
static size_t short_len(size_t n) { return n <= 1 ? n : 1 + (size_t)g_frng.below(n - 1); }

ssize_t __wrap_read(int fd, void *buf, size_t n) {
  if (passthrough()) return __real_read(fd, buf, n);
  Ig ig_;
  sched_point();
  if (n > 0 && fd_fault_eligible(fd)) {
    if (fd_is_sock(fd) && fault(F_READ_EAGAIN)) { errno = EAGAIN; return -1; }
    if (n > 1 && fault(F_SHORT_READ)) n = short_len(n);
  }
  ig_.end();
  return __real_read(fd, buf, n);
}

ssize_t __wrap_recv(int fd, void *buf, size_t n, int flags) {
  if (passthrough()) return __real_recv(fd, buf, n, flags);
  Ig ig_;
  sched_point();
  if (n > 1 && fd_fault_eligible(fd) && fault(F_SHORT_READ)) n = short_len(n);
  ig_.end();
  return __real_recv(fd, buf, n, flags);
}

ssize_t __wrap_write(int fd, const void *buf, size_t n) {
  if (passthrough()) return __real_write(fd, buf, n);
  Ig ig_;
  sched_point();
  if (n > 0 && fd_fault_eligible(fd)) {
    if (fault(F_WRITE_EAGAIN)) { errno = EAGAIN; return -1; }
    if (n > 1 && fault(F_SHORT_WRITE)) n = short_len(n);
  }
  ig_.end();
  return __real_write(fd, buf, n);
}

ssize_t __wrap_send(int fd, const void *buf, size_t n, int flags) {
  if (passthrough()) return __real_send(fd, buf, n, flags);
  Ig ig_;
  sched_point();
  if (n > 0 && fd_fault_eligible(fd)) {
    if (fault(F_WRITE_EAGAIN)) { errno = EAGAIN; return -1; }
    if (n > 1 && fault(F_SHORT_WRITE)) n = short_len(n);
  }
  ig_.end();
  return __real_send(fd, buf, n, flags);
}

static size_t iov_total(const struct iovec *iov, int cnt) {
  size_t t = 0;
  for (int i = 0; i < cnt; ++i) t += iov[i].iov_len;
  return t;
}
static int iov_truncate(const struct iovec *iov, int cnt, size_t keep, struct iovec *out) {
  int k = 0;
  for (int i = 0; i < cnt && keep > 0; ++i) {
    out[k] = iov[i];
    if (out[k].iov_len > keep) out[k].iov_len = keep;
    keep -= out[k].iov_len;
    if (out[k].iov_len > 0) ++k;
  }
  return k;
}

ssize_t __wrap_readv(int fd, const struct iovec *iov, int cnt) {
  if (passthrough()) return __real_readv(fd, iov, cnt);
  Ig ig_;
  sched_point();
  size_t total = iov_total(iov, cnt);
  if (total > 0 && cnt <= 16 && fd_fault_eligible(fd)) {
    if (fd_is_sock(fd) && fault(F_READ_EAGAIN)) { errno = EAGAIN; return -1; }
    if (total > 1 && fault(F_SHORT_READ)) {
      struct iovec tmp[16];
      int k = iov_truncate(iov, cnt, short_len(total), tmp);
      ig_.end();
      return __real_readv(fd, tmp, k);
    }
  }
  ig_.end();
  return __real_readv(fd, iov, cnt);
}

ssize_t __wrap_writev(int fd, const struct iovec *iov, int cnt) {
  if (passthrough()) return __real_writev(fd, iov, cnt);
  Ig ig_;
  sched_point();
  size_t total = iov_total(iov, cnt);
  if (total > 0 && cnt <= 16 && fd_fault_eligible(fd)) {
    if (fault(F_WRITE_EAGAIN)) { errno = EAGAIN; return -1; }
    if (total > 1 && fault(F_SHORT_WRITE)) {
      struct iovec tmp[16];
      int k = iov_truncate(iov, cnt, short_len(total), tmp);
      ig_.end();
      return __real_writev(fd, tmp, k);
    }
  }
  ig_.end();
  return __real_writev(fd, iov, cnt);
}

ssize_t __wrap_sendto(int fd, const void *buf, size_t n, int flags, const struct sockaddr *a, socklen_t l) {
  if (passthrough()) return __real_sendto(fd, buf, n, flags, a, l);
  Ig ig_;
  sched_point();
  if (a && a->sa_family == AF_INET && g_udp_port >= 0) {
    const struct sockaddr_in *in = reinterpret_cast<const struct sockaddr_in *>(a);
    if (ntohs(in->sin_port) == g_udp_port) {
      if (g_udp_obs && *g_udp_obs) { NoSched ns; (*g_udp_obs)(ntohl(in->sin_addr.s_addr), buf, n); }
      ig_.end();
      return __real_sendto(fd, buf, n, flags, reinterpret_cast<const struct sockaddr *>(&g_udp_to), g_udp_to_len);
    }
  }
  ig_.end();
  return __real_sendto(fd, buf, n, flags, a, l);
}

ssize_t __wrap_recvfrom(int fd, void *buf, size_t n, int flags, struct sockaddr *a, socklen_t *l) {
  if (passthrough()) return __real_recvfrom(fd, buf, n, flags, a, l);
  Ig ig_;
  sched_point();
  ig_.end();
  ssize_t r = __real_recvfrom(fd, buf, n, flags, a, l);
  // The part of the caller's buffer behind the datagram holds nothing that was received.  Make reading it visible: it is
  // cleared (so that an over-reading name parser finds a terminator and reports what it assembled, which the oracle rejects)
  // and, under valgrind, marked undefined (manual ASan poisoning would outlive the caller's stack frame).
  if (g_poison_recv_tail && buf && r >= 0 && (size_t)r < n) {
    int e = errno;
    memset(static_cast<char *>(buf) + r, 0, n - (size_t)r);
    VALGRIND_MAKE_MEM_UNDEFINED(static_cast<char *>(buf) + r, n - (size_t)r);
    errno = e;
  }
  return r;
}

int __wrap_accept(int fd, struct sockaddr *a, socklen_t *l) {
  if (passthrough()) return __real_accept(fd, a, l);
  Ig ig_;
  sched_point();
  return __real_accept(fd, a, l);
}
int __wrap_accept4(int fd, struct sockaddr *a, socklen_t *l, int flags) {
  if (passthrough()) return __real_accept4(fd, a, l, flags);
  Ig ig_;
  sched_point();
  return __real_accept4(fd, a, l, flags);
}
int __wrap_connect(int fd, const struct sockaddr *a, socklen_t l) {
  if (passthrough()) return __real_connect(fd, a, l);
  Ig ig_;
  sched_point();
  return __real_connect(fd, a, l);
}

}  // extern "C"

// ------------------------------------------------------------------ raw access for harness actors
namespace sim {
namespace raw {
ssize_t read(int fd, void *buf, size_t n) { return __real_read(fd, buf, n); }
ssize_t write(int fd, const void *buf, size_t n) { return __real_write(fd, buf, n); }
ssize_t send(int fd, const void *buf, size_t n, int flags) { return __real_send(fd, buf, n, flags); }
ssize_t recv(int fd, void *buf, size_t n, int flags) { return __real_recv(fd, buf, n, flags); }
ssize_t sendto(int fd, const void *buf, size_t n, int flags, const struct sockaddr *a, socklen_t l) { return __real_sendto(fd, buf, n, flags, a, l); }
ssize_t recvfrom(int fd, void *buf, size_t n, int flags, struct sockaddr *a, socklen_t *l) { return __real_recvfrom(fd, buf, n, flags, a, l); }
int connect(int fd, const struct sockaddr *a, socklen_t l) { return __real_connect(fd, a, l); }
int accept(int fd, struct sockaddr *a, socklen_t *l) { return __real_accept(fd, a, l); }
int poll1(int fd, short events) {
  struct pollfd p; p.fd = fd; p.events = events; p.revents = 0;
  __real_poll(&p, 1, 0);
  return p.revents;
}
}  // namespace raw
}  // namespace sim
