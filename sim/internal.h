#pragma once
#include <stdint.h>
#include <vector>
#include "sim.h"

// ThreadSanitizer sees libc calls (memmove, malloc, vsnprintf...) made by the
// uninstrumented simulator through its interceptors.  Simulator state is
// handed from thread to thread without TSan-visible synchronisation (on
// purpose), so every simulator entry point ignores its own memory accesses.
extern "C" {
void AnnotateIgnoreReadsBegin(const char *f, int l) __attribute__((weak));
void AnnotateIgnoreReadsEnd(const char *f, int l) __attribute__((weak));
void AnnotateIgnoreWritesBegin(const char *f, int l) __attribute__((weak));
void AnnotateIgnoreWritesEnd(const char *f, int l) __attribute__((weak));
}

namespace sim {
struct Ig {
  bool on = false;
  Ig() { begin(); }
  ~Ig() { end(); }
  void begin() {
    if (!on && AnnotateIgnoreReadsBegin) {
      AnnotateIgnoreReadsBegin(__FILE__, __LINE__);
      AnnotateIgnoreWritesBegin(__FILE__, __LINE__);
      on = true;
    }
  }
  void end() {
    if (on) {
      AnnotateIgnoreWritesEnd(__FILE__, __LINE__);
      AnnotateIgnoreReadsEnd(__FILE__, __LINE__);
      on = false;
    }
  }
};
}  // namespace sim

namespace sim {
namespace internal {
void count_fault(const char *name);
void emit_result(const char *outcome);
uint64_t steps();
uint64_t switches();
uint64_t decisions();
int64_t now_ns();
int64_t start_ns_of(const Plan &plan);
int nthreads();
int current_tid();
const std::vector<int> &decision_log();
}  // namespace internal
}  // namespace sim
