#pragma once
#include <stdint.h>
#include <vector>
#include "sim.h"

namespace sim {
namespace internal {
void count_fault(const char *name);
void emit_result(const char *outcome);
uint64_t steps();
uint64_t switches();
uint64_t decisions();
int64_t now_ns();
int64_t start_ns_of(const Plan &plan);
int nthreads();
int current_tid();
const std::vector<int> &decision_log();
}  // namespace internal
}  // namespace sim
