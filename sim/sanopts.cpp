// Compiled-in sanitizer options (non-inline, used) — see DESIGN.md §6.1.
extern "C" {
__attribute__((used, visibility("default"))) const char *__asan_default_options() {
  return "exitcode=77:detect_leaks=0:abort_on_error=0:halt_on_error=1:detect_stack_use_after_return=0:allocator_may_return_null=1:handle_segv=1:print_summary=1";
}
__attribute__((used, visibility("default"))) const char *__ubsan_default_options() {
  return "exitcode=77:print_stacktrace=1:halt_on_error=1";
}
__attribute__((used, visibility("default"))) const char *__tsan_default_options() {
  return "exitcode=66:halt_on_error=0:report_signal_unsafe=0:second_deadlock_stack=0:history_size=4:atexit_sleep_ms=0:die_after_fork=0:report_thread_leaks=0";
}
}
