// Seeded PRNG with named, independent streams (xoshiro256** seeded by splitmix64).
#pragma once
#include <stdint.h>
#include <string.h>

namespace sim {

inline uint64_t splitmix64(uint64_t &x) {
  uint64_t z = (x += 0x9e3779b97f4a7c15ULL);
  z = (z ^ (z >> 30)) * 0xbf58476d1ce4e5b9ULL;
  z = (z ^ (z >> 27)) * 0x94d049bb133111ebULL;
  return z ^ (z >> 31);
}

inline uint64_t fnv1a(const void *p, size_t n, uint64_t h = 0xcbf29ce484222325ULL) {
  const unsigned char *c = static_cast<const unsigned char *>(p);
  for (size_t i = 0; i < n; ++i) { h ^= c[i]; h *= 0x100000001b3ULL; }
  return h;
}

inline uint64_t mix_seed(uint64_t seed, const char *stream) {
  uint64_t h = fnv1a(&seed, sizeof(seed));
  h = fnv1a(stream, strlen(stream), h);
  uint64_t x = h;
  return splitmix64(x);
}

struct Rng {
  uint64_t s[4];
  Rng() { reseed(0); }
  explicit Rng(uint64_t seed) { reseed(seed); }
  Rng(uint64_t seed, const char *stream) { reseed(mix_seed(seed, stream)); }
  void reseed(uint64_t seed) {
    uint64_t x = seed;
    for (int i = 0; i < 4; ++i) s[i] = splitmix64(x);
  }
  static inline uint64_t rotl(uint64_t x, int k) { return (x << k) | (x >> (64 - k)); }
  uint64_t next() {
    const uint64_t result = rotl(s[1] * 5, 7) * 9;
    const uint64_t t = s[1] << 17;
    s[2] ^= s[0]; s[3] ^= s[1]; s[1] ^= s[2]; s[0] ^= s[3];
    s[2] ^= t; s[3] = rotl(s[3], 45);
    return result;
  }
  // uniform in [0, n)  (n > 0)
  uint64_t below(uint64_t n) { return n ? next() % n : 0; }
  // uniform in [lo, hi]
  long range(long lo, long hi) { return hi <= lo ? lo : lo + (long)below((uint64_t)(hi - lo) + 1); }
  bool chance(unsigned permille) { return below(1000) < permille; }
  template <class T, size_t N> T pick(const T (&arr)[N]) { return arr[below(N)]; }
};

}  // namespace sim
