// libsim — deterministic simulation runtime for cpp-tbox harnesses.
// See /verif/DESIGN.md §3.  All nondeterminism is taken over at link time
// (-Wl,--wrap=...) and decided from the plan (seed, schedule, fault scopes).
#pragma once
#include <stdint.h>
#include <stddef.h>
#include <sys/types.h>
#include <sys/socket.h>
#include <functional>
#include <map>
#include <string>
#include <vector>

#include "prng.h"

namespace sim {

// ---------------------------------------------------------------- plan
struct Op {
  std::string kind;
  std::vector<long> a;
  uint64_t fseed = 0;   // fault PRNG seed for the time this op is in flight
  unsigned fmask = 0;   // enabled fault kinds while this op is in flight
  long arg(size_t i, long def = 0) const { return i < a.size() ? a[i] : def; }
};

struct Sched {
  std::string strategy = "none";   // none | random | pct | sticky | starve | explicit
  uint64_t seed = 0;
  long param = 0;                  // pct: depth; sticky: pre-emption permille; starve: victim thread id
  long horizon = 2000;             // pct: range in which change points are drawn
  std::vector<int> decisions;      // explicit: 0 = default, k>0 = (k-1) % |enabled|
};

struct Plan {
  std::string property, harness, flavour;
  uint64_t seed = 0;
  std::map<std::string, long> cfg;
  Sched sched;
  std::vector<Op> ops;
  long get(const char *k, long def = 0) const {
    auto it = cfg.find(k);
    return it == cfg.end() ? def : it->second;
  }
};

bool parse_plan(const std::string &text, Plan &out, std::string *err = nullptr);
std::string format_plan(const Plan &p);

// ---------------------------------------------------------------- faults
enum FaultKind : unsigned {
  F_SHORT_WRITE  = 1u << 0,   // write/send/writev accept fewer bytes than asked
  F_WRITE_EAGAIN = 1u << 1,   // write/send return EAGAIN ("kernel buffer full")
  F_SHORT_READ   = 1u << 2,   // read/recv/readv return fewer bytes than available
  F_READ_EAGAIN  = 1u << 3,   // read returns EAGAIN although readable (rare but legal on sockets)
  F_WAIT_EINTR   = 1u << 4,   // epoll_wait/select return -1/EINTR
  F_LATE_WAKE    = 1u << 5,   // a timed block is released late (clock jumps past the deadline)
  F_EVENT_SUBSET = 1u << 6,   // epoll_wait reports only some of the ready descriptors
  F_SPURIOUS     = 1u << 7,   // condition variable spurious wake-up
  F_COND_ANY     = 1u << 8,   // notify_one wakes a PRNG-chosen waiter instead of the oldest
  F_STALL        = 1u << 9,   // a thread about to take a mutex is descheduled for a while (virtual ms) although it is runnable: a stalled / pre-empted thread
  F_OPEN_FAIL    = 1u << 10,  // open() of a path under the registered prefix fails with EMFILE (transient: the next attempt is drawn afresh)
  F_WAIT_FATAL   = 1u << 11,  // epoll_wait/select fail with ENOMEM (a fatal error: only in plans that expect the loop to end by it)
  F_ALL          = 0xfffu
};
const char *fault_name(unsigned kind);

// Install the fault scope of the operation in flight.  mask==0 disables faults.
void fault_scope(uint64_t fseed, unsigned mask);
// per-kind probability (permille) and magnitudes
void fault_rate(unsigned kind, unsigned permille);
void fault_late_max_ms(long ms);
void poison_recv_tail(bool on);                     // recvfrom() clears the part of the buffer behind the received datagram and marks it undefined for valgrind
void fault_stall_max_ms(long ms);
void fault_open_prefix(const char *path_prefix);   // open() faults apply to paths that start with this prefix only
// descriptors on which read/write faults may be injected (default: none).
void fault_fd(int fd, bool on);
void fault_all_sockets(bool on);     // every socket/pipe not explicitly excluded

// ---------------------------------------------------------------- run control
void start(const Plan &plan);        // the calling thread becomes simulated thread 0
void finish();                       // stop simulating (other simulated threads are abandoned)
bool active();

int  self();                         // logical id of the calling simulated thread (-1 if none)
void name_thread(const char *name);
void yield();                        // explicit scheduling point
uint64_t seq();                      // global, strictly increasing event sequence number (bumps it)
uint64_t steps();
int  threads_alive();
// true when simulated thread `tid` is parked in a blocking call (wait call, condition, join) that nothing has made ready yet:
// it cannot run until something else happens or its deadline passes
bool thread_idle(int tid);

int64_t now_ns();
inline int64_t now_ms() { return now_ns() / 1000000; }
void advance_ns(int64_t d);          // "this took d ns"
inline void advance_ms(int64_t d) { advance_ns(d * 1000000); }
void sleep_ns(int64_t d);            // simulated sleep of the calling thread
int64_t wall_offset_ns();
void set_wall_offset_ns(int64_t off);
void set_step_cap(uint64_t cap);

// No scheduling inside this scope (signal handlers, harness book-keeping).
struct NoSched { NoSched(); ~NoSched(); };

// ---------------------------------------------------------------- single-loop mode
struct HookResult {
  bool acted = false;        // the hook performed an external action; probe again
  int64_t next_due_ns = -1;  // virtual time of the next external action, -1 = none
};
// Called by the thread that installed it each time it is about to wait in
// epoll_wait/select (once per probe).  `pass` counts calls of the wait wrapper.
typedef std::function<HookResult(uint64_t pass)> PrewaitHook;
void set_prewait_hook(PrewaitHook h);
uint64_t wait_calls();               // number of epoll_wait/select calls by the hook thread
// Called at every entry of the wait wrapper (before anything else), with the timeout in ms.
void set_wait_entry_hook(std::function<void(int timeout_ms)> h);

// ---------------------------------------------------------------- observation / result
void trace(const char *fmt, ...) __attribute__((format(printf, 1, 2)));   // hashed into the run fingerprint
void note(const char *fmt, ...) __attribute__((format(printf, 1, 2)));    // debug ring only, not hashed
void violation(const std::string &cls, const std::string &detail);
size_t violation_count();
void probe(const char *name, long n = 1);
void relevant(long n = 1);           // property-relevant operations executed (for the non-trivial rule)
void interleave_mix(uint64_t v);     // fold a value into the interleaving fingerprint

struct DeadlockInfo {
  std::string summary;               // thread states, one line each
};
// Called on simulator-detected deadlock / step-cap.  The handler should call
// violation(); afterwards the run result is emitted and the process exits.
void set_deadlock_handler(std::function<void(const DeadlockInfo &)> h);
void set_stepcap_handler(std::function<void()> h);

// ---------------------------------------------------------------- raw (unsimulated) syscalls for harness actors
namespace raw {
ssize_t read(int fd, void *buf, size_t n);
ssize_t write(int fd, const void *buf, size_t n);
ssize_t send(int fd, const void *buf, size_t n, int flags);
ssize_t recv(int fd, void *buf, size_t n, int flags);
ssize_t sendto(int fd, const void *buf, size_t n, int flags, const struct sockaddr *a, socklen_t l);
ssize_t recvfrom(int fd, void *buf, size_t n, int flags, struct sockaddr *a, socklen_t *l);
int connect(int fd, const struct sockaddr *a, socklen_t l);
int accept(int fd, struct sockaddr *a, socklen_t *l);
int poll1(int fd, short events);     // zero-timeout poll of one fd, returns revents
}

// sendto() redirection for the DNS client: datagrams to port `port` go to `to_fd_addr`.
void redirect_udp_port(int port, const struct sockaddr *to, socklen_t len);
// called for each redirected datagram with the original destination (ip, host order)
void set_udp_redirect_observer(std::function<void(uint32_t dst_ip, const void *data, size_t n)> f);

// ---------------------------------------------------------------- harness definition + zygote entry
struct Harness {
  const char *property;              // "C05"
  const char *name;                  // "c05_threadpool"
  // Fill plan.cfg / plan.ops / plan.sched from the seed.  `tier` is "quick" or "thorough".
  void (*generate)(Rng &workload, uint64_t seed, const std::string &tier, Plan &plan);
  // Execute the plan under the simulator (calls sim::start itself or via run helpers).
  void (*execute)(const Plan &plan);
};
int harness_main(int argc, char **argv, const Harness &h);

// helper to draw a schedule section for threads-mode harnesses
void draw_sched(uint64_t seed, Plan &plan);

}  // namespace sim

namespace sim {
const char *run_dir();   // fresh per-run scratch directory (removed before the next run)
const char *tier();      // "quick" | "thorough"
}

// History facility: the only place harnesses keep state that several simulated
// threads write (kept in libsim so that the TSan flavour never sees it).
namespace sim {
struct HEvent {
  uint64_t seq;     // global event sequence number
  int tid;          // logical simulated thread
  int64_t t_ns;     // virtual time
  int kind;
  long a, b, c, d;
};
uint64_t hist(int kind, long a = 0, long b = 0, long c = 0, long d = 0);   // returns seq
const std::vector<HEvent> &history();
// small shared integer cells (thread-safe by construction under the simulator)
long cell_get(int idx);
void cell_set(int idx, long v);
long cell_add(int idx, long d);
}

namespace sim {
std::string fmt(const char *f, ...) __attribute__((format(printf, 1, 2)));
}
