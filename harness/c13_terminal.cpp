// C13 — terminal shell: hostile input is harmless; line editing, prompts and history match a reference.
// Single-loop mode.  Real Terminal + Telnetd / TcpRpc services over an AF_UNIX path; clients are raw sockets.
#include <sim.h>
#include "loopdrv.h"

#include <tbox/event/loop.h>
#include <tbox/terminal/terminal.h>
#include <tbox/terminal/session.h>
#include <tbox/terminal/service/telnetd.h>
#include <tbox/terminal/service/tcp_rpc.h>

#include <fcntl.h>
#include <sys/socket.h>
#include <sys/un.h>
#include <unistd.h>

#include <algorithm>
#include <deque>
#include <string>
#include <vector>

using namespace tbox;
using namespace tbox::event;
using namespace tbox::terminal;

namespace {

enum Key { K_CHAR = 0, K_ENTER, K_BS, K_DEL, K_LEFT, K_RIGHT, K_HOME, K_END, K_UP, K_DOWN, K_ENTER_LF, K_TAB, K_JUNK, K_NKEY };
static const char ALPHA[] = "pab x019!-hz2345678";   // no '#', no ';', no quotes: keeps the reference model of command execution small

// plan A (cfg hostile=0):  key <k> <c>      seg <nkeys> <dt_ms>
// plan B (cfg hostile=1):  raw <sess> <seed> <len> <dt_ms>      rawfix <sess> <which> <dt_ms>      drop <sess> <dt_ms>
void generate(sim::Rng &r, uint64_t seed, const std::string &tier, sim::Plan &p) {
  bool thorough = tier == "thorough";
  bool hostile = r.chance(400);
  p.cfg["hostile"] = hostile;
  p.cfg["backend"] = r.below(2);
  p.cfg["front"] = r.chance(700) ? 0 : 1;       // 0 telnet, 1 raw tcp
  p.cfg["echo"] = r.chance(350) ? 1 : 0;        // telnet only: the client asks for echo; then only prompts/probe arguments are compared
  if (!hostile) {
    auto type = [&](const std::string &w) { for (char c : w) { sim::Op op; op.kind = "key"; op.a = {K_CHAR, (long)(strchr(ALPHA, c) - ALPHA)}; p.ops.push_back(op); } };
    auto key = [&](long k) { sim::Op op; op.kind = "key"; op.a = {k, 0}; p.ops.push_back(op); };
    int nlines = (int)r.range(1, thorough ? 30 : 12);
    if (r.chance(150)) nlines = (int)r.range(20, 28);     // enough lines to exceed the history capacity
    static const char *words[] = {"p", "p a", "p b x", "p 1 0", "z", "history", "!!", "!0", "!1", "!-1", "!-2", "!19", "!20", "!-20", "!-21", "!x", "!", "!-", "!1x", "!99999999999", "!-99999999999",
                                  "!4294967296", "!4294967298", "!-4294967295", "!99999999999999999999", "!2147483648", "!-2147483648", "!-2147483649", "!2147483647", "!-99999999999999999999",
                                  "h", "", " ", "p  a", "ab"};
    for (int l = 0; l < nlines; ++l) {
      if (r.chance(250)) { int n = (int)r.range(1, 4); for (int i = 0; i < n; ++i) key(r.chance(600) ? K_UP : K_DOWN); }
      std::string w = words[r.below(r.chance(120) ? 35 : r.chance(150) ? 30 : 19)];
      if (l == 0 && r.chance(200)) w = "!!";                 // history reference on an empty history
      if (r.chance(70)) { sim::Op op; op.kind = "key"; op.a = {K_JUNK, (long)r.below(9)}; p.ops.push_back(op); }   // a key the editor does not know, before the line
      if (r.chance(50)) {
        // a long line, then an insertion far left of its end (what is right of the cursor has to be redrawn when echo is on)
        static const long lens[] = {100, 126, 127, 128, 129, 130, 200, 254, 255, 256, 257, 300, 520};
        w = "p " + std::string((size_t)lens[r.below(13)], 'a');
        type(w);
        if (r.chance(500)) key(K_HOME); else { int nl = (int)r.range(120, 260); for (int i = 0; i < nl; ++i) key(K_LEFT); }
        int ni = (int)r.range(1, 3); for (int i = 0; i < ni; ++i) { sim::Op op; op.kind = "key"; op.a = {K_CHAR, (long)r.below(sizeof(ALPHA) - 1)}; p.ops.push_back(op); }
        w.clear();
      }
      type(w);
      int nedit = r.chance(400) ? (int)r.range(1, 6) : 0;
      for (int i = 0; i < nedit; ++i) {
        unsigned x = (unsigned)r.below(100);
        if (x < 20) key(K_LEFT); else if (x < 32) key(K_RIGHT); else if (x < 42) key(K_HOME); else if (x < 52) key(K_END);
        else if (x < 66) key(K_BS); else if (x < 76) key(K_DEL); else if (x < 80) key(K_TAB);
        else if (x < 85) { sim::Op op; op.kind = "key"; op.a = {K_JUNK, (long)r.below(9)}; p.ops.push_back(op); }
        else { sim::Op op; op.kind = "key"; op.a = {K_CHAR, (long)r.below(sizeof(ALPHA) - 1)}; p.ops.push_back(op); }
      }
      if (r.chance(800)) { sim::Op op; op.kind = "key"; op.a = {K_ENTER, r.chance(500) ? 0 : r.range(1, 5)}; p.ops.push_back(op); }   // how the line ends: CR LF, CR NUL, bare CR, CR | NUL
      else key(K_ENTER_LF);
    }
    int ns = (int)r.range(1, 8);
    for (int i = 0; i < ns; ++i) { sim::Op op; op.kind = "seg"; op.a = {r.chance(400) ? 1 : r.range(2, 12), r.chance(600) ? 0 : r.range(1, 3)}; p.ops.push_back(op); }
  } else {
    long nsess = r.range(1, 3);
    p.cfg["nsess"] = nsess;
    int n = (int)r.range(1, thorough ? 30 : 14);
    for (int i = 0; i < n; ++i) {
      sim::Op op;
      long s = (long)r.below((uint64_t)nsess), dt = r.chance(600) ? 0 : r.range(1, 3);
      unsigned x = (unsigned)r.below(100);
      if (x < 55) { op.kind = "raw"; op.a = {s, (long)(r.next() & 0xffffff), r.range(1, 40), dt}; }
      else if (x < 92) { op.kind = "rawfix"; op.a = {s, (long)r.below(35), dt}; }
      else { op.kind = "drop"; op.a = {s, dt}; }
      p.ops.push_back(op);
    }
  }
  p.sched.strategy = "none";
}

#define LIT(x) std::string(x, sizeof(x) - 1)
std::string encode_key(long k, long c) {
  switch (k) {
    case K_CHAR: return std::string(1, ALPHA[((c % (long)(sizeof(ALPHA) - 1)) + (long)(sizeof(ALPHA) - 1)) % (long)(sizeof(ALPHA) - 1)]);
    case K_ENTER: return "\r\n";
    case K_BS: return "\x7f";
    case K_DEL: return "\x1b[3~";
    case K_LEFT: return "\x1b[D";
    case K_RIGHT: return "\x1b[C";
    case K_HOME: return "\x1b[1~";
    case K_END: return "\x1b[4~";
    case K_UP: return "\x1b[A";
    case K_DOWN: return "\x1b[B";
    case K_ENTER_LF: return "\n";
    case K_JUNK: {
      // keys and sequences the line editor does not know: complete function keys, and escape prefixes aborted by a byte that is
      // itself no key (so an editor that drops the aborting byte and one that rescans it agree: nothing happens to the line)
      static const std::string J[] = {LIT("\x1b[3\x01"), LIT("\x1bO\x02"), LIT("\xc2\xa3"), LIT("\x1b\x01"), LIT("\x1b[5\x03"), LIT("\x1bOP"), LIT("\x1b[5~"), LIT("\x1b[15~"), LIT("\x1b[1\x04")};
      return J[((c % 9) + 9) % 9];
    }
    default: return "\t";
  }
}

// ---------------------------------------------------------------------- reference model (plan A)
struct Model {
  std::string cur; size_t cursor = 0;
  std::deque<std::string> hist; size_t hidx = 0;
  std::string out;                                  // everything the terminal is expected to send after the first prompt (no echo)
  std::vector<std::vector<std::string>> probe;      // expected argument vectors of the probe node, in order
  bool prompts = true;
  bool undefined = false;                           // a history reference to a non-existing "last" entry: must report an error
  std::string undefined_why;
  long enters = 0;

  static std::vector<std::string> split_ws(const std::string &s) {
    std::vector<std::string> v; size_t e = 0;
    for (;;) { size_t b = s.find_first_not_of(" \t", e); if (b == std::string::npos) break; e = s.find_first_of(" \t", b); v.push_back(s.substr(b, e - b)); if (e == std::string::npos) break; }
    return v;
  }
  void cleanup_input() { while (cursor < cur.size()) { out += "\x1b[C"; ++cursor; } while (cursor--) out += "\b \b"; }
  bool exec_line(const std::string &line, int depth) {
    if (line.empty()) return false;
    std::vector<std::string> a = split_ws(line);
    if (a.empty()) { out += "Error: parse cmdline fail!\r\n"; return true; }
    const std::string &cmd = a[0];
    if (cmd == "p") { probe.push_back(a); return true; }
    if (cmd == "history") { for (size_t i = 0; i < hist.size(); ++i) { char b[16]; snprintf(b, sizeof b, "%2zu", i); out += std::string(b) + "  " + hist[i] + "\r\n"; } return false; }
    if (cmd[0] == '!') {
      std::string sub = cmd.substr(1);
      if (sub == "!") {
        if (hist.empty()) { out += "Error: index out of range.\r\n"; return false; }
        cur = hist.back();
        return exec_line(cur, depth + 1);
      }
      // std::stoi semantics: optional sign, at least one digit; trailing characters ignored
      size_t i = 0; bool neg = false;
      if (i < sub.size() && (sub[i] == '+' || sub[i] == '-')) { neg = sub[i] == '-'; ++i; }
      size_t d0 = i; long long v = 0; bool overflow = false;
      while (i < sub.size() && isdigit((unsigned char)sub[i])) { if (!overflow) { v = v * 10 + (sub[i] - '0'); if (v > 2147483648LL) overflow = true; } ++i; }
      if (i == d0) { out += "Error: parse index fail.\r\n"; return false; }
      if (overflow || (!neg && v > 2147483647LL)) { out += "Error: index out of range.\r\n"; return false; }      // a number that does not fit an int addresses nothing
      long long idx = neg ? -v : v;
      std::string target; bool ok = false;
      if (idx >= 0) { if ((size_t)idx < hist.size()) { target = hist[(size_t)idx]; ok = true; } }
      else if (hist.size() >= (size_t)(-idx)) { target = hist[hist.size() - (size_t)(-idx)]; ok = true; }
      if (!ok) { out += "Error: index out of range.\r\n"; return false; }
      cur = target;
      out += cur + "\r\n";
      return exec_line(cur, depth + 1);
    }
    out += "Error: '" + cmd + "' not found.\r\n";
    return true;
  }
  void key(long k, long c) {
    if (undefined) return;
    switch (k) {
      case K_CHAR: { char ch = ALPHA[((c % (long)(sizeof(ALPHA) - 1)) + (long)(sizeof(ALPHA) - 1)) % (long)(sizeof(ALPHA) - 1)]; cur.insert(cursor, 1, ch); ++cursor; break; }
      case K_BS: if (cursor > 0) { cur.erase(cursor - 1, 1); --cursor; } break;
      case K_DEL: if (cursor < cur.size()) cur.erase(cursor, 1); break;
      case K_LEFT: if (cursor > 0) { --cursor; out += "\x1b[D"; } break;
      case K_RIGHT: if (cursor < cur.size()) { ++cursor; out += "\x1b[C"; } break;
      case K_HOME: while (cursor > 0) { out += "\x1b[D"; --cursor; } break;
      case K_END: while (cursor < cur.size()) { out += "\x1b[C"; ++cursor; } break;
      case K_UP: if (hidx != hist.size()) { cleanup_input(); ++hidx; cur = hist[hist.size() - hidx]; cursor = cur.size(); out += cur; } break;
      case K_DOWN: if (hidx != 0) { cleanup_input(); --hidx; if (hidx > 0) { cur = hist[hist.size() - hidx]; cursor = cur.size(); } else { cur.clear(); cursor = 0; } out += cur; } break;
      case K_ENTER: case K_ENTER_LF: {
        ++enters;
        if (exec_line(cur, 0)) { hist.push_back(cur); if (hist.size() > 20) hist.pop_front(); }
        if (undefined) return;
        if (prompts) out += "# ";
        cur.clear(); cursor = 0; hidx = 0;
        break;
      }
      default: break;
    }
  }
};

struct World {
  Loop *loop = nullptr;
  Terminal *term = nullptr;
  Telnetd *telnetd = nullptr;
  TcpRpc *tcprpc = nullptr;
  std::string path;
  int cfd[3] = {-1, -1, -1}; bool closed[3] = {false, false, false}; bool server_eof[3] = {false, false, false};
  std::string rx[3];
  std::vector<std::vector<std::string>> probe_args;
};
World W;

int connect_client() {
  int fd = socket(AF_UNIX, SOCK_STREAM, 0);
  struct sockaddr_un sa; memset(&sa, 0, sizeof sa); sa.sun_family = AF_UNIX;
  strncpy(sa.sun_path, W.path.c_str(), sizeof(sa.sun_path) - 1);
  if (sim::raw::connect(fd, (struct sockaddr *)&sa, sizeof sa) != 0) { perror("connect"); _exit(3); }
  int fl = fcntl(fd, F_GETFL); fcntl(fd, F_SETFL, fl | O_NONBLOCK);
  return fd;
}
void client_read(int i) {
  if (W.cfd[i] < 0 || W.closed[i] || W.server_eof[i]) return;
  char buf[65536];
  for (;;) { ssize_t r = sim::raw::read(W.cfd[i], buf, sizeof buf); if (r > 0) W.rx[i].append(buf, (size_t)r); else { if (r == 0) W.server_eof[i] = true; break; } }
}
void client_send(int i, const std::string &s) {
  client_read(i);
  if (W.cfd[i] < 0 || W.closed[i]) return;
  size_t off = 0;
  while (off < s.size()) { ssize_t w = sim::raw::send(W.cfd[i], s.data() + off, s.size() - off, MSG_NOSIGNAL); if (w <= 0) break; off += (size_t)w; }
}

std::string hostile_bytes(long seedv, long len) {
  sim::Rng rr((uint64_t)seedv + 3);
  static const unsigned char alpha[] = {0xff, 0xfa, 0xf0, 0xfb, 0xfc, 0xfd, 0xfe, 0xf1, 0x1b, '[', 'A', 'D', '1', '3', '~', 'O', 'P', '\r', '\n', 0, 0x7f, 8, 9, 0xc2, 'a', 'p', ' ', '!', '-', '9', ';', '"', '\'', 'h', 0x80, 0x1f};
  std::string s;
  for (long i = 0; i < len; ++i) s.push_back((char)(rr.chance(850) ? alpha[rr.below(sizeof alpha)] : (unsigned char)rr.below(256)));
  return s;
}
static const std::string FIXED[] = {
    LIT("\xff\xfa\x1f"),
    LIT("\xff\xfa\x1f\x00"),
    LIT("\xff\xfa\x1f\x00\x50\x00\x18\xff"),
    LIT("\xff\xfa\x1f\x00\x50\x00\x18\xff\xf0"),
    LIT("\xff\xfd"),
    LIT("\xff\xfd\x01"),
    LIT("\xff\xfb\x1f"),
    LIT("\xff"),
    LIT("\xff\xff"),
    LIT("\xff\xf1"),
    LIT("exit\r\nhistory\r\n!!\r\n"),
    LIT("quit\r\n\xff\xfd\x01p a\r\n"),
    LIT("!!\r\n"),
    LIT("!99999999999999999999\r\n"),
    LIT("!-99999999999\r\n"),
    LIT("history\r\n"),
    LIT("\x1b[A\x1b[A\x1b[B\r\n"),
    LIT("p 'unclosed\r\n"),
    LIT("cd d;q x;cd ..;tree;ls;pwd;help q\r\n"),
    LIT(";;;\r\n"),
    LIT("\x1b[1~\x1b[3~\x1b[4~\x7f\x7f\x7f\r"),
    LIT("p a\r\n!0\r\n!-1\r\n!!\r\n"),
    LIT("help\r\ntree /\r\nls zz\r\ncd p\r\n"),
    LIT("\xc2\x81\x1bq\x1bOP\x1b[15~\x1b[24~"),
    // negotiation verbs cut off from their option byte by the end of the segment, and the option alone
    LIT("\xff\xfb"), LIT("\xff\xfc"), LIT("\xff\xfe"), LIT("p a\xff\xfe"), LIT("\x22"), LIT("\x01"), LIT("\xff\xfa"),
    LIT("   \r\n"), LIT("p x; \r\n"), LIT("\x1b[3x1\r\n"), LIT("\x1bOZab\r\n")};


void execute(const sim::Plan &plan) {
  sim::start(plan);
  sim::name_thread("loop");
  sim::set_deadlock_handler([](const sim::DeadlockInfo &info) { sim::violation("C13/loop-never-wakes", "the loop blocks for ever before the end of the plan: " + info.summary); });
  sim::set_stepcap_handler([] { sim::violation("C13/livelock", "the terminal spins without progress (step cap)"); });
  W = World();
  bool hostile = plan.get("hostile") != 0;
  long front = plan.get("front") ? 1 : 0;
  bool echo = front == 0 && plan.get("echo") != 0;
  W.loop = Loop::New(plan.get("backend") ? "select" : "epoll");
  W.term = new Terminal(W.loop);
  W.path = std::string(sim::run_dir()) + "/t.sock";
  // node tree: /p (probe function), /d (directory), /d/q (probe function)
  auto probe_fn = [](const Session &, const Args &args) { W.probe_args.push_back(args); sim::relevant(); };
  NodeToken p = W.term->createFuncNode(probe_fn, "probe");
  NodeToken d = W.term->createDirNode("dir");
  NodeToken q = W.term->createFuncNode(probe_fn, "probe q");
  W.term->mountNode(W.term->rootNode(), p, "p");
  W.term->mountNode(W.term->rootNode(), d, "d");
  W.term->mountNode(d, q, "q");
  if (front == 0) { W.telnetd = new Telnetd(W.loop, W.term); if (!W.telnetd->initialize(W.path)) { fprintf(stderr, "telnetd init failed\n"); _exit(3); } W.telnetd->start(); }
  else { W.tcprpc = new TcpRpc(W.loop, W.term); if (!W.tcprpc->initialize(W.path)) { fprintf(stderr, "tcprpc init failed\n"); _exit(3); } W.tcprpc->start(); }

  static drv::Timeline tl;
  tl = drv::Timeline();
  int64_t t = sim::now_ns();
  Model model;
  model.prompts = front == 0;
  long nsess = hostile ? std::max(1L, std::min(3L, plan.get("nsess", 1))) : 1;
  for (long s = 0; s < nsess; ++s) tl.at(t, [s] { W.cfd[s] = connect_client(); });
  t += 1000000;
  if (echo) { tl.at(t, [] { client_send(0, "\xff\xfd\x01"); }); t += 1000000; }
  if (!hostile) {
    std::vector<const sim::Op *> keys, segs;
    for (const sim::Op &op : plan.ops) { if (op.kind == "key") keys.push_back(&op); else if (op.kind == "seg") segs.push_back(&op); }
    size_t ki = 0, si = 0;
    std::string pending_carry;
    while (ki < keys.size()) {
      size_t n = keys.size() - ki; long dt = 0;
      if (!segs.empty()) { const sim::Op *sg = segs[si++ % segs.size()]; n = std::min<size_t>(n, (size_t)std::max(1L, sg->arg(0))); dt = std::max(0L, std::min(10L, sg->arg(1))); }
      std::string bytes, carry;
      for (size_t k = ki; k < ki + n; ++k) {
        long kk = ((keys[k]->arg(0) % K_NKEY) + K_NKEY) % K_NKEY;
        std::string enc = encode_key(kk, keys[k]->arg(1));
        if (kk == K_ENTER) {
          // the ways a client ends a line: CR LF, CR NUL, and — at the end of a segment — a bare CR, or CR with its NUL in the next segment
          long v = ((keys[k]->arg(1) % 6) + 6) % 6;
          bool last = k + 1 == ki + n;
          // a bare CR directly followed by an LF keystroke is the byte sequence CR LF, i.e. one Enter for every segmentation: not generated
          if (k + 1 < keys.size() && (((keys[k + 1]->arg(0) % K_NKEY) + K_NKEY) % K_NKEY) == K_ENTER_LF) v = 0;
          if (v == 1) enc = std::string("\r\0", 2);
          else if (v == 2 && last) enc = "\r";
          else if (v == 3 && last && ki + n < keys.size()) { enc = "\r"; carry = std::string("\0", 1); }
          else if (v == 5 && last && ki + n < keys.size()) { enc = "\r"; carry = "\n"; }
        }
        bytes += enc; model.key(kk, keys[k]->arg(1));
      }
      ki += n;
      t += dt * 1000000;
      if (!pending_carry.empty()) { bytes = pending_carry + bytes; pending_carry.clear(); }
      pending_carry = carry;
      tl.at(t, [bytes] { client_send(0, bytes); sim::relevant(); });
    }
  } else {
    for (const sim::Op &op : plan.ops) {
      const sim::Op *o = &op;
      if (op.kind == "raw") { t += std::max(0L, std::min(10L, op.arg(3))) * 1000000; tl.at(t, [o, nsess] { client_send((int)(((o->arg(0) % nsess) + nsess) % nsess), hostile_bytes(o->arg(1), std::max(1L, std::min(400L, o->arg(2))))); sim::relevant(); }); }
      else if (op.kind == "rawfix") { t += std::max(0L, std::min(10L, op.arg(2))) * 1000000; tl.at(t, [o, nsess] { client_send((int)(((o->arg(0) % nsess) + nsess) % nsess), FIXED[((o->arg(1) % 35) + 35) % 35]); sim::relevant(); }); }
      else if (op.kind == "drop") { t += std::max(0L, std::min(10L, op.arg(1))) * 1000000; tl.at(t, [o, nsess] { int i = (int)(((o->arg(0) % nsess) + nsess) % nsess); if (W.cfd[i] >= 0 && !W.closed[i]) { close(W.cfd[i]); W.closed[i] = true; } }); }
    }
  }
  for (int k = 0; k < 20; ++k) { t += 1000000; tl.at(t, [] { for (int i = 0; i < 3; ++i) client_read(i); }); }
  t += 1000000;
  tl.at(t, [] { W.loop->runInLoop([] { W.loop->exitLoop(); }, "c13.exit"); });
  tl.install();
  W.loop->runLoop(Loop::Mode::kForever);
  sim::set_prewait_hook(nullptr);
  for (int i = 0; i < 3; ++i) client_read(i);

  // ---------------------------------------------------------------- oracle (plan A)
  if (!hostile && sim::violation_count() == 0) {
    const std::string &rx = W.rx[0];
    if (model.undefined) {
      // the reference has no defined continuation; the terminal must have reported an error (and must not have crashed — it did not, or we would not be here)
      if (rx.find("Error:") == std::string::npos && rx.find("rror") == std::string::npos)
        sim::violation("C13/history-reference-not-rejected", model.undefined_why + "; no error was reported to the client");
    } else {
      // probe arguments: the executed lines
      if (W.probe_args != model.probe) {
        size_t i = 0; while (i < W.probe_args.size() && i < model.probe.size() && W.probe_args[i] == model.probe[i]) ++i;
        sim::violation("C13/executed-line-differs", sim::fmt("the probe command was executed %zu times, the reference editor/history model executes it %zu times; first difference at execution #%zu", W.probe_args.size(), model.probe.size(), i));
      } else if (front == 0 && !echo) {
        size_t start = rx.find("information.\r\n\r\n# ");
        if (start == std::string::npos) sim::violation("C13/no-initial-prompt", "the session did not start with the welcome text and a prompt");
        else {
          std::string got = rx.substr(start + strlen("information.\r\n\r\n# "));
          if (got != model.out) {
            size_t i = 0; while (i < got.size() && i < model.out.size() && got[i] == model.out[i]) ++i;
            sim::violation("C13/output-differs", sim::fmt("after %ld Enter keys the bytes sent to the client differ from the reference (prompt per Enter, history listing, !n echo/errors, cursor motions) at offset %zu: got %zu bytes, expected %zu", model.enters, i, got.size(), model.out.size()));
          }
        }
      } else if (front == 1) {
        if (W.rx[0] != model.out) sim::violation("C13/output-differs", sim::fmt("raw-TCP front end: bytes sent to the client differ from the reference: got %zu bytes, expected %zu", W.rx[0].size(), model.out.size()));
      } else {
        // echo mode: count prompts only ('#' never appears in typed text or command output)
        long prompts = 0; for (size_t i = 0; i + 1 < rx.size(); ++i) if (rx[i] == '#' && rx[i + 1] == ' ') ++prompts;
        if (prompts != model.enters + 1) sim::violation("C13/prompt-count", sim::fmt("%ld Enter keys were answered by %ld prompts (one initial prompt plus exactly one per Enter expected)", model.enters, prompts - 1));
      }
    }
  }
  sim::probe("probe_executions", (long)W.probe_args.size());
  delete W.telnetd; delete W.tcprpc;
  delete W.term;
  delete W.loop;
  for (int i = 0; i < 3; ++i) if (W.cfd[i] >= 0 && !W.closed[i]) close(W.cfd[i]);
  sim::finish();
}

const sim::Harness H = {"C13", "c13_terminal", generate, execute};
}  // namespace

int main(int argc, char **argv) { return sim::harness_main(argc, argv, H); }
