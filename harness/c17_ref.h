// C17 — timed reference model of the action composites (discrete events, virtual milliseconds).
// It re-implements the documented control flow of every composite as an event-driven state machine:
// leaves complete after their delay, action time-outs fire, finish/block notifications travel one level per
// zero-time hop in FIFO order, pause/resume/stop/reset act as the headers describe.  The model refuses to
// predict ("ambiguous") whenever the outcome would depend on the order of two things that happen at the same
// virtual instant and are not ordered by the documentation (two timers with one deadline, a control call that
// lands at an instant at which notifications are in flight).
#pragma once
#include <deque>
#include <map>
#include <string>
#include <vector>

namespace c17ref {

enum Kind { N_SEQ = 0, N_PAR, N_IFELSE, N_IFTHEN, N_SWITCH, N_LOOP, N_LOOPIF, N_REPEAT, N_WRAPPER, N_COMPOSITE, N_LEAF };
enum Outcome { O_SUCC = 0, O_FAIL, O_FLIP, O_NEVER, O_BLOCK };
enum St { IDLE = 0, RUNNING, PAUSED, FINISHED, STOPPED };

struct InSpec { int kind; long mode, a, b, tmo; std::vector<int> ch; int impl = 0; };   // impl (leaves): 0 probe leaf, 1 SleepAction, 2 FunctionAction
struct Ctl { long at_ms; int what; bool glued = false; };        // 0 pause 1 resume 2 stop 3 reset+start (tree at rest) 4 reset+start (at any moment)

struct LeafStart { int leaf; long n; long t; bool operator==(const LeafStart &o) const { return leaf == o.leaf && n == o.n && t == o.t; } };
struct RunRec {
  std::vector<LeafStart> starts;             // named leaves only
  int finishes = 0; bool result = false; long finish_t = -1;
  int blocks = 0;
};

class Model {
 public:
  struct Node {
    int kind = N_LEAF; long mode = 0, a = 0, b = 0, tmo = 0; int spec = -1; int parent = -1;
    std::vector<int> ch;                     // slots as build() wires them (padded leaves materialised)
    St st = IDLE;
    size_t idx = 0; long remain = 0; int cur = -1;
    bool has_stored = false; int stored_child = -1; bool stored_ok = false; std::string stored_msg; bool stored_direct = false;
    std::map<int, bool> fin;                 // parallel: finished children (slot -> result)
    long starts = 0; bool result_now = true; bool pending = false;
    long leaf_due = -1, tmo_due = -1;
    int impl = 0; long leaf_remain = 0; int leaf_pauses = 0;      // a SleepAction leaf keeps the remaining time across pause/resume, a probe leaf starts its delay again
    unsigned long finish_notif = 0, block_notif = 0;
  };
  struct Notif { unsigned long id; int to; int from; int what; bool ok; std::string msg; bool direct; };   // what: 0 finish 1 block 2 replay(stored)

  std::vector<Node> nd;
  std::deque<Notif> q;
  unsigned long next_id = 1;
  long now = 0, last_activity = -1;
  bool ambiguous = false, overrun = false;
  std::string why_ambiguous;
  long leaf_starts = 0;
  RunRec run[2]; int cur_run = 0;
  bool started = false, second = false, stopped = false;

  explicit Model(const std::vector<InSpec> &spec) { build(spec, 0, -1); }

  // ------------------------------------------------------------------ construction (mirrors build() of the harness)
  int pad(int parent) { Node n; n.kind = N_LEAF; n.mode = O_SUCC; n.parent = parent; nd.push_back(n); return (int)nd.size() - 1; }
  int build(const std::vector<InSpec> &spec, int i, int parent) {
    const InSpec &s = spec[(size_t)i];
    int me = (int)nd.size();
    { Node n; n.kind = s.kind; n.mode = s.mode; n.a = s.a; n.b = s.b; n.tmo = s.tmo; n.spec = i; n.parent = parent; n.impl = s.impl; nd.push_back(n); }
    auto child = [&](size_t k) -> int { return k < s.ch.size() ? build(spec, s.ch[k], me) : pad(me); };
    std::vector<int> ch;
    switch (s.kind) {
      case N_SEQ: case N_PAR: for (size_t k = 0; k < s.ch.size(); ++k) ch.push_back(child(k)); if (s.ch.empty()) ch.push_back(pad(me)); break;
      case N_IFELSE: ch.push_back(child(0)); ch.push_back(child(1)); if (s.ch.size() >= 3) ch.push_back(child(2)); break;
      case N_IFTHEN: { size_t pairs = std::max<size_t>(1, s.ch.size() / 2); for (size_t k = 0; k < pairs; ++k) { ch.push_back(child(2 * k)); ch.push_back(child(2 * k + 1)); } break; }
      case N_SWITCH: ch.push_back(child(0)); ch.push_back(child(1)); if (s.ch.size() >= 3) ch.push_back(child(2)); if (s.ch.size() >= 4) ch.push_back(child(3)); break;
      case N_LOOPIF: ch.push_back(child(0)); ch.push_back(child(1)); break;
      case N_LOOP: case N_REPEAT: case N_WRAPPER: case N_COMPOSITE: ch.push_back(child(0)); break;
      default: break;
    }
    nd[(size_t)me].ch = ch;
    if (s.kind == N_LEAF) nd[(size_t)me].tmo = s.tmo;           // completion delay
    return me;
  }

  // ------------------------------------------------------------------ base action
  bool underway(int n) const { return nd[(size_t)n].st == RUNNING || nd[(size_t)n].st == PAUSED; }
  int slot_of(int p, int c) const { const Node &P = nd[(size_t)p]; for (size_t k = 0; k < P.ch.size(); ++k) if (P.ch[k] == c) return (int)k; return -1; }
  bool serial(int n) const { return nd[(size_t)n].kind != N_PAR && nd[(size_t)n].kind != N_LEAF; }
  void drop_replays(int n) { for (auto it = q.begin(); it != q.end();) { if (it->what == 2 && it->to == n) it = q.erase(it); else ++it; } }
  void cancel_notifs(int n) {
    Node &N = nd[(size_t)n];
    for (auto it = q.begin(); it != q.end();) { if ((N.finish_notif && it->id == N.finish_notif) || (N.block_notif && it->id == N.block_notif)) it = q.erase(it); else ++it; }
    N.finish_notif = N.block_notif = 0;
  }
  void post(int from, int what, bool ok, const std::string &msg) {
    Node &N = nd[(size_t)from];
    Notif x{next_id++, N.parent, from, what, ok, msg, false};
    (what == 0 ? N.finish_notif : N.block_notif) = x.id;
    q.push_back(x); last_activity = now;
  }

  bool start(int n) {
    Node &N = nd[(size_t)n];
    if (N.st == RUNNING) return true;
    if (N.st != IDLE) return false;
    on_start(n);
    if (nd[(size_t)n].st == IDLE) { if (nd[(size_t)n].kind != N_LEAF && nd[(size_t)n].tmo > 0) nd[(size_t)n].tmo_due = now + nd[(size_t)n].tmo; nd[(size_t)n].st = RUNNING; }
    return true;
  }
  bool pause(int n) {
    Node &N = nd[(size_t)n];
    if (N.st == PAUSED) return true;
    if (N.st != RUNNING) return false;
    if (N.kind == N_LEAF) {
      if (N.impl == 1 && N.leaf_due >= 0) {
        N.leaf_remain = N.leaf_due - now;
        // SleepAction measures the remaining time from the deadline computed at start, also after it has been resumed once:
        // how long a sleep that is paused twice lasts is nothing C17 speaks about, so no prediction is made
        if (++N.leaf_pauses > 1) set_ambiguous("a SleepAction leaf is paused for the second time in one run");
      }
      N.leaf_due = -1;
    }
    else if (N.kind == N_PAR) { for (int c : N.ch) pause(c); }
    else if (N.cur >= 0) pause(N.cur);
    if (nd[(size_t)n].st == RUNNING) { nd[(size_t)n].tmo_due = -1; nd[(size_t)n].st = PAUSED; }
    return true;
  }
  bool resume(int n) {
    if (nd[(size_t)n].st == RUNNING) return true;
    if (nd[(size_t)n].st != PAUSED) return false;
    int kind = nd[(size_t)n].kind;
    if (kind == N_LEAF) { Node &N = nd[(size_t)n]; if (N.mode != O_NEVER) N.leaf_due = now + (N.impl == 1 ? N.leaf_remain : std::max(1L, N.tmo)); }
    else if (kind == N_PAR) {
      bool done = false;
      { Node &N = nd[(size_t)n]; long m = N.mode % 3; for (auto &it : N.fin) if ((m == 2 && it.second) || (m == 1 && !it.second)) { done = true; break; } }
      if (done) { std::vector<int> ch = nd[(size_t)n].ch; for (int c : ch) stop(c); finish(n, true, ""); }
      else if (nd[(size_t)n].fin.size() == nd[(size_t)n].ch.size()) finish(n, true, "");
      else { std::vector<int> ch = nd[(size_t)n].ch; for (int c : ch) if (nd[(size_t)c].st == PAUSED) resume(c); }
    } else {
      Node &N = nd[(size_t)n];
      if (N.cur >= 0) resume(N.cur);
      else if (N.has_stored) { Notif x{next_id++, n, N.stored_child, 2, N.stored_ok, N.stored_msg, N.stored_direct}; q.push_back(x); last_activity = now; N.has_stored = false; }
    }
    Node &N = nd[(size_t)n];
    if (N.st == PAUSED) { if (N.kind != N_LEAF && N.tmo > 0 && N.tmo_due < 0) N.tmo_due = now + N.tmo; N.st = RUNNING; }
    return true;
  }
  bool stop(int n) {
    if (!underway(n)) return true;
    { Node &N = nd[(size_t)n]; N.st = STOPPED; N.tmo_due = -1; }
    cancel_notifs(n);
    int kind = nd[(size_t)n].kind;
    if (kind == N_LEAF) { nd[(size_t)n].leaf_due = -1; nd[(size_t)n].pending = false; }
    else if (kind == N_PAR) { std::vector<int> ch = nd[(size_t)n].ch; for (int c : ch) stop(c); }
    else { int c = nd[(size_t)n].cur; if (c >= 0) { stop(c); nd[(size_t)n].cur = -1; } nd[(size_t)n].has_stored = false; drop_replays(n); }
    return true;
  }
  bool finish(int n, bool ok, const std::string &msg) {
    if (nd[(size_t)n].st == FINISHED || nd[(size_t)n].st == STOPPED) return false;
    { Node &N = nd[(size_t)n]; N.st = FINISHED; N.tmo_due = -1; }
    int kind = nd[(size_t)n].kind;
    if (kind == N_PAR) { std::vector<int> ch = nd[(size_t)n].ch; for (int c : ch) stop(c); }
    else if (kind != N_LEAF) { int c = nd[(size_t)n].cur; if (c >= 0) { stop(c); nd[(size_t)n].cur = -1; } nd[(size_t)n].has_stored = false; drop_replays(n); }
    post(n, 0, ok, msg);
    return true;
  }
  bool block(int n, const std::string &msg) {
    if (nd[(size_t)n].st == FINISHED || nd[(size_t)n].st == STOPPED) return false;
    nd[(size_t)n].st = PAUSED;
    post(n, 1, false, msg);
    return true;
  }
  void reset(int n) {
    if (nd[(size_t)n].st == IDLE) return;
    int kind = nd[(size_t)n].kind;
    if (kind == N_LEAF) { Node &N = nd[(size_t)n]; N.leaf_due = -1; N.pending = false; N.starts = 0; }
    else {
      std::vector<int> ch = nd[(size_t)n].ch;
      for (int c : ch) reset(c);
      Node &N = nd[(size_t)n]; N.idx = 0; N.fin.clear(); N.cur = -1; N.has_stored = false;
      if (kind != N_PAR) drop_replays(n);
    }
    nd[(size_t)n].tmo_due = -1;
    cancel_notifs(n);
    nd[(size_t)n].st = IDLE;
  }

  // ------------------------------------------------------------------ composites
  bool start_this(int n, int c) { if (start(c)) { nd[(size_t)n].cur = c; return true; } return false; }
  void seq_start_or_finish(int n, bool ok, const std::string &msg) {
    Node &N = nd[(size_t)n];
    if (N.idx < N.ch.size()) { if (!start_this(n, N.ch[N.idx])) finish(n, false, "StartChildFail"); }
    else finish(n, ok, msg);
  }
  void ifthen_do_start(int n) {
    Node &N = nd[(size_t)n];
    if (N.idx >= N.ch.size() / 2) { finish(n, false, "IfThenSkip"); return; }
    start_this(n, N.ch[2 * N.idx]);
  }
  void on_start(int n) {
    int kind = nd[(size_t)n].kind;
    switch (kind) {
      case N_LEAF: {
        Node &N = nd[(size_t)n];
        ++N.starts; ++leaf_starts;
        if (leaf_starts > 300) { overrun = true; return; }
        if (N.spec >= 0) run[cur_run].starts.push_back(LeafStart{N.spec, N.starts, now});
        switch (N.mode) {
          case O_SUCC: N.result_now = true; break;
          case O_FAIL: N.result_now = false; break;
          case O_FLIP: { bool late = N.starts > N.a; N.result_now = (N.b & 1) ? !late : late; break; }
          default: N.result_now = true; break;
        }
        N.pending = true;
        if (N.mode == O_NEVER) return;
        if (N.mode == O_BLOCK && N.starts == 1) { block(n, "probe blocks"); return; }
        N.leaf_pauses = 0;
        if (N.tmo <= 0) { N.pending = false; finish(n, N.result_now, N.impl == 2 ? std::string("FunctionAction") : "case:c" + std::to_string(N.starts % 2)); }
        else N.leaf_due = now + std::max(1L, N.tmo);
        return;
      }
      case N_SEQ: seq_start_or_finish(n, true, ""); return;
      case N_PAR: {
        std::vector<int> ch = nd[(size_t)n].ch;
        for (size_t k = 0; k < ch.size(); ++k) {
          if (overrun) return;
          if (!start(ch[k])) {
            nd[(size_t)n].fin[(int)k] = false;
            if (nd[(size_t)n].mode % 3 == 1) { finish(n, true, ""); return; }
          }
        }
        if (nd[(size_t)n].fin.size() == ch.size()) finish(n, true, "");
        return;
      }
      case N_IFTHEN: nd[(size_t)n].idx = 0; ifthen_do_start(n); return;
      case N_REPEAT: nd[(size_t)n].remain = std::max(1L, std::min(4L, nd[(size_t)n].a)) - 1; start_this(n, nd[(size_t)n].ch[0]); return;
      default: start_this(n, nd[(size_t)n].ch[0]); return;       // if-else, switch, loop, loop-if, wrapper, composite: first child
    }
  }
  // a child's finish reaches its parent
  void child_finished(int p, int c, bool ok, const std::string &msg) {
    if (p < 0) { RunRec &r = run[cur_run]; ++r.finishes; r.result = ok; r.finish_t = now; return; }
    int kind = nd[(size_t)p].kind;
    int slot = slot_of(p, c);
    if (kind == N_PAR) {
      Node &P = nd[(size_t)p];
      if (P.st == PAUSED) { P.fin[slot] = ok; return; }
      if (P.st != RUNNING) return;
      P.fin[slot] = ok;
      long m = P.mode % 3;
      if ((m == 2 && ok) || (m == 1 && !ok)) { std::vector<int> ch = P.ch; for (int x : ch) stop(x); finish(p, true, ""); }
      else if (P.fin.size() == P.ch.size()) finish(p, true, "");
      return;
    }
    // serial composites
    bool last_child = (kind == N_IFELSE && slot >= 1) || (kind == N_IFTHEN && (slot % 2) == 1) || (kind == N_SWITCH && slot >= 1) || kind == N_COMPOSITE;
    {
      Node &P = nd[(size_t)p];
      P.cur = -1;
      if (P.st == PAUSED) { P.has_stored = true; P.stored_child = c; P.stored_ok = ok; P.stored_msg = msg; P.stored_direct = last_child; return; }
      if (P.st != RUNNING) return;
    }
    if (last_child) { finish(p, ok, msg); return; }
    Node &P = nd[(size_t)p];
    long m3 = P.mode % 3;
    switch (kind) {
      case N_SEQ:
        if ((m3 == 2 && ok) || (m3 == 1 && !ok)) finish(p, ok, msg);
        else { ++P.idx; seq_start_or_finish(p, ok, msg); }
        return;
      case N_IFELSE:
        if (ok) { start_this(p, P.ch[1]); return; }
        if (P.ch.size() >= 3) { start_this(p, P.ch[2]); return; }
        finish(p, true, msg); return;
      case N_IFTHEN:
        if (ok) start_this(p, P.ch[2 * P.idx + 1]);
        else { ++P.idx; ifthen_do_start(p); }
        return;
      case N_SWITCH: {
        if (!ok) { finish(p, false, "SwitchFail"); return; }
        int target = P.ch.size() >= 4 ? P.ch[3] : -1;
        if (msg == "case:c0") target = P.ch[1];
        else if (msg == "case:c1" && P.ch.size() >= 3) target = P.ch[2];
        if (target >= 0) start_this(p, target); else finish(p, false, "SwitchSkip");
        return;
      }
      case N_LOOP:
        if ((m3 == 2 && ok) || (m3 == 1 && !ok)) finish(p, ok, msg);
        else { int ch0 = P.ch[0]; reset(ch0); start_this(p, ch0); }
        return;
      case N_LOOPIF:
        if (slot == 0) { if (ok) start_this(p, P.ch[1]); else finish(p, true, msg); }
        else { int a0 = P.ch[0], a1 = P.ch[1]; reset(a0); reset(a1); if (!start_this(p, a0)) finish(p, true, msg); }
        return;
      case N_REPEAT:
        if ((m3 == 2 && ok) || (m3 == 1 && !ok)) finish(p, ok, msg);
        else if (P.remain > 0) { int ch0 = P.ch[0]; reset(ch0); start_this(p, ch0); --nd[(size_t)p].remain; }
        else finish(p, true, "RepeatNoTimes");
        return;
      case N_WRAPPER: { long m = P.mode % 4; finish(p, m == 0 ? ok : m == 1 ? !ok : m == 2, msg); return; }
      default: return;
    }
  }
  void child_blocked(int p, int /*c*/, const std::string &msg) {
    if (p < 0) { ++run[cur_run].blocks; return; }
    Node &P = nd[(size_t)p];
    if (P.kind == N_PAR) { if (P.st == RUNNING) { std::vector<int> ch = P.ch; for (int x : ch) pause(x); block(p, msg); } return; }
    block(p, msg);
  }
  void drain() {
    long guard = 0;
    while (!q.empty() && !overrun) {
      if (++guard > 20000) { overrun = true; return; }
      Notif x = q.front(); q.pop_front();
      if (x.from >= 0 && x.what == 0 && nd[(size_t)x.from].finish_notif == x.id) nd[(size_t)x.from].finish_notif = 0;
      if (x.from >= 0 && x.what == 1 && nd[(size_t)x.from].block_notif == x.id) nd[(size_t)x.from].block_notif = 0;
      if (x.what == 1) child_blocked(x.to, x.from, x.msg);
      else if (x.what == 2 && x.direct) finish(x.to, x.ok, x.msg);
      else child_finished(x.to, x.from, x.ok, x.msg);
    }
  }

  // ------------------------------------------------------------------ whole run
  void set_ambiguous(const std::string &why) { if (!ambiguous) { ambiguous = true; why_ambiguous = why; } }
  void apply_ctl(int what) {
    if (what == 0) { if (nd[0].st == RUNNING) pause(0); }
    else if (what == 1) { if (nd[0].st == PAUSED) resume(0); }
    else if (what == 2) { if (underway(0)) { stop(0); stopped = true; } }
    else if (!second && (what == 4 || !underway(0)) && nd[0].st != IDLE) { reset(0); second = true; cur_run = 1; leaf_starts = 0; stopped = false; start(0); }
  }
  // returns false when the model cannot predict this plan
  bool simulate(const std::vector<Ctl> &ctls, long end_ms) {
    now = 0; started = true;
    size_t ci = 0;
    start(0);
    while (ci < ctls.size() && ctls[ci].glued) { apply_ctl(ctls[ci].what); ++ci; }     // control calls issued right behind start(), in the same loop task
    drain();
    while (!ambiguous && !overrun) {
      long t1 = -1; int who = -1; bool is_leaf = false; int ties = 0;
      for (size_t i = 0; i < nd.size(); ++i) {
        for (int pass = 0; pass < 2; ++pass) {
          long d = pass ? nd[i].tmo_due : nd[i].leaf_due;
          if (d < 0) continue;
          if (t1 < 0 || d < t1) { t1 = d; who = (int)i; is_leaf = !pass; ties = 1; } else if (d == t1) ++ties;
        }
      }
      long t2 = ci < ctls.size() ? ctls[ci].at_ms : -1;
      if (t1 < 0 && t2 < 0) break;
      if (t1 >= 0 && t1 > end_ms && t2 < 0) break;
      if (t1 >= 0 && t2 >= 0 && t1 == t2) { set_ambiguous("a control call and a timer share one instant"); break; }
      if (t2 < 0 || (t1 >= 0 && t1 < t2)) {
        if (ties > 1) { set_ambiguous("two timers share one deadline"); break; }
        now = t1; last_activity = now;
        if (is_leaf) { Node &N = nd[(size_t)who]; N.leaf_due = -1; N.pending = false; finish(who, N.result_now, N.impl == 1 ? std::string("SleepAction") : "case:c" + std::to_string(N.starts % 2)); }
        else { nd[(size_t)who].tmo_due = -1; finish(who, false, "ActionTimeout"); }
        drain();
      } else {
        if (t2 == last_activity) { set_ambiguous("a control call lands at an instant with notifications in flight"); break; }
        now = t2;
        // a control call and the ones glued to it run inside one loop task: notifications are delivered after the last of them
        do { apply_ctl(ctls[ci].what); ++ci; } while (ci < ctls.size() && ctls[ci].glued);
        drain();
      }
    }
    return !ambiguous && !overrun;
  }
};

}  // namespace c17ref
