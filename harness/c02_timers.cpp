// C02 — loop timers and TimerPool against a reference model under a virtual millisecond clock.
// Single-loop mode: the loop thread is the only thread; external operations come from the pre-wait hook.
#include <sim.h>
#include "loopdrv.h"

#include <tbox/event/loop.h>
#include <tbox/event/timer_event.h>
#include <tbox/eventx/timer_pool.h>

#include <algorithm>
#include <map>
#include <vector>

using namespace tbox::event;
using tbox::eventx::TimerPool;

namespace {

const int NEV = 6;       // TimerEvent slots 0..5
const int NPOOL = 3;     // TimerPool slots 6..8
const int NSLOT = NEV + NPOOL;

// op <kind> <ctx> <when> <target> <a> <b>
//   ctx  -1: outside (posted to the loop `when` ms after the previous outside op)
//   ctx >=0: inside the callback of slot ctx, on that slot's `when`-th firing of the run
// kinds: init(target, interval, oneshot) enable disable destroy advance(ms) pafter(target, interval) pevery(target, interval) pcancel(target)
void generate(sim::Rng &r, uint64_t seed, const std::string &tier, sim::Plan &p) {
  bool thorough = tier == "thorough";
  p.cfg["backend"] = r.below(2);
  p.cfg["tail_ms"] = r.range(20, 200);
  static const long ivs[] = {1, 1, 2, 3, 5, 5, 10, 10, 10, 20, 50};
  int n = (int)r.range(3, thorough ? 60 : 30);
  int ntimers = (int)r.range(1, NEV);
  auto fset = [&](sim::Op &op) {
    if (r.chance(450)) { op.fseed = r.next() >> 2; op.fmask = 0; if (r.chance(800)) op.fmask |= sim::F_LATE_WAKE; if (r.chance(300)) op.fmask |= sim::F_WAIT_EINTR; }
  };
  // start with a few init+enable so that most runs have several live timers (many with equal deadlines)
  for (int t = 0; t < ntimers; ++t) {
    sim::Op a; a.kind = "init"; a.a = {-1, t == 0 ? 0 : (r.chance(700) ? 0 : r.range(1, 5)), t, ivs[r.below(11)], r.chance(300) ? 1 : 0}; fset(a);
    sim::Op b; b.kind = "enable"; b.a = {-1, r.chance(700) ? 0 : r.range(1, 5), t, 0, 0}; fset(b);
    p.ops.push_back(a); p.ops.push_back(b);
  }
  for (int i = 0; i < n; ++i) {
    sim::Op op;
    bool inside = r.chance(550);
    long ctx = inside ? (long)r.below(NSLOT) : -1;
    long when = inside ? r.range(1, 6) : (r.chance(300) ? 0 : r.range(1, 30));
    unsigned x = (unsigned)r.below(100);
    long target = (long)r.below(NEV);
    if (inside && r.chance(400)) target = ctx < NEV ? ctx : target;     // act on the running timer itself
    if (x < 18) {
      long iv = ivs[r.below(11)];
      if (r.chance(80)) iv = r.pick((const long[]){2147483647L, 2147483648L, 2592000000L, 3888000000L, 4294967301L, 10000000000L});   // 24.8 days and more: the timer must simply not fire during the run
      op.kind = "init"; op.a = {ctx, when, target, iv, r.chance(350) ? 1 : 0};
    }
    else if (x < 40) { op.kind = "enable"; op.a = {ctx, when, target, 0, 0}; }
    else if (x < 58) { op.kind = "disable"; op.a = {ctx, when, target, 0, 0}; }
    else if (x < 68) { op.kind = "destroy"; op.a = {ctx, when, target, 0, 0}; }
    else if (x < 78) { if (!inside) { ctx = (long)r.below(NSLOT); when = r.range(1, 6); } op.kind = "advance"; op.a = {ctx, when, 0, r.range(1, 60), 0}; }
    else if (x < 86) { op.kind = "pafter"; op.a = {ctx, when, NEV + (long)r.below(NPOOL), ivs[r.below(11)], 0}; }
    else if (x < 93) { op.kind = "pevery"; op.a = {ctx, when, NEV + (long)r.below(NPOOL), ivs[r.below(11)], 0}; }
    else { op.kind = "pcancel"; op.a = {ctx, when, NEV + (long)r.below(NPOOL), 0, 0}; }
    if (op.a[0] < 0) fset(op);
    p.ops.push_back(op);
  }
  p.sched.strategy = "none";
}

struct M {
  TimerEvent *ev = nullptr;
  bool exists = false, inited = false, enabled = false, oneshot = false, pending_delete = false;
  long d = 0, t_enable = 0, k = 0, fires_total = 0;
  TimerPool::TimerToken tok;
};

struct World {
  Loop *loop = nullptr;
  TimerPool *pool = nullptr;
  const sim::Plan *plan = nullptr;
  M m[NSLOT];
  long fires[NSLOT] = {0};
  int running = -1;
  uint64_t last_pass = 0; long last_D = -1;
  std::multimap<std::pair<int, long>, int> inside;   // (slot, firing) -> op index
  bool finished = false;
};
World W;

void on_fire(int slot);

long deadline_of(const M &m) { return m.t_enable + (m.k + 1) * m.d; }

void apply(const sim::Op &op, int running_slot) {
  const std::string &k = op.kind;
  long now = sim::now_ms();
  sim::relevant();
  if (k == "advance") { if (running_slot >= 0) { sim::advance_ms(std::max(1L, std::min(200L, op.arg(3)))); sim::trace("advance %ld", op.arg(3)); } return; }
  int t = (int)(((op.arg(2) % NSLOT) + NSLOT) % NSLOT);
  if (k == "pafter" || k == "pevery") {
    if (t < NEV) t = NEV + t % NPOOL;
    M &m = W.m[t];
    if (m.exists) return;                         // slot busy
    long d = std::max(1L, std::min(1000L, op.arg(3)));
    m = M(); m.exists = true; m.inited = true; m.enabled = true; m.oneshot = (k == "pafter"); m.d = d; m.t_enable = now; m.k = 0;
    if (m.oneshot) m.tok = W.pool->doAfter(std::chrono::milliseconds(d), [t] { on_fire(t); });
    else m.tok = W.pool->doEvery(std::chrono::milliseconds(d), [t] { on_fire(t); });
    sim::trace("%s slot %d d=%ld", k.c_str(), t, d);
    return;
  }
  if (k == "pcancel") {
    if (t < NEV) t = NEV + t % NPOOL;
    M &m = W.m[t];
    bool got = W.pool->cancel(m.tok);     // the answer is not part of the property; only "never fires afterwards" is
    m.exists = false; m.enabled = false;
    sim::trace("pcancel slot %d -> %d", t, got);
    return;
  }
  if (t >= NEV) t = t % NEV;
  M &m = W.m[t];
  if (m.pending_delete) return;
  if (k == "init") {
    long d = std::max(1L, op.arg(3) > 1000000L ? std::min(20000000000L, op.arg(3)) : std::min(1000L, op.arg(3)));      // short intervals, or intervals of weeks and months (beyond 2^31 and 2^32 ms)
    if (d > 1000000L) sim::probe("far_timers");
    if (!m.exists) {
      m = M();
      m.ev = W.loop->newTimerEvent("c02");
      m.ev->setCallback([t] { on_fire(t); });
      m.exists = true;
    }
    m.ev->initialize(std::chrono::milliseconds(d), op.arg(4) ? Event::Mode::kOneshot : Event::Mode::kPersist);
    m.inited = true; m.enabled = false; m.d = d; m.oneshot = op.arg(4) != 0;
    sim::trace("init slot %d d=%ld oneshot=%d", t, d, (int)m.oneshot);
  } else if (k == "enable") {
    if (!m.exists || !m.inited) return;
    m.ev->enable();
    if (!m.enabled) { m.enabled = true; m.t_enable = now; m.k = 0; }
    if (!m.ev->isEnabled()) sim::violation("C02/isenabled-after-enable", "isEnabled() is false right after enable()");
    sim::trace("enable slot %d at %ld", t, now);
  } else if (k == "disable") {
    if (!m.exists) return;
    m.ev->disable();
    m.enabled = false;
    if (m.inited && m.ev->isEnabled()) sim::violation("C02/isenabled-after-disable", "isEnabled() is true right after disable()");
    sim::trace("disable slot %d", t);
  } else if (k == "destroy") {
    if (!m.exists) return;
    if (t == running_slot) {
      // the running event must not be deleted from its own callback: defer, as the API requires
      TimerEvent *ev = m.ev;
      m.pending_delete = true;
      W.loop->runNext([t, ev] { delete ev; W.m[t] = M(); sim::trace("deferred delete slot %d", t); }, "c02.delete");
      sim::trace("destroy(deferred) slot %d", t);
    } else {
      delete m.ev;
      m = M();
      sim::trace("destroy slot %d", t);
    }
  }
}

void on_fire(int slot) {
  M &m = W.m[slot];
  long T = sim::now_ms();
  uint64_t pass = sim::wait_calls();
  sim::trace("fire slot %d at %ld", slot, T);
  if (!m.exists) sim::violation("C02/fires-after-destroy", "callback of a destroyed timer was invoked");
  else if (!m.enabled) sim::violation("C02/fires-while-disabled", sim::fmt("timer callback invoked although the timer is disabled (%s)", m.oneshot ? "one-shot that already fired, or disabled" : "disabled"));
  else {
    long D = deadline_of(m);
    if (T < D) sim::violation("C02/fires-early", sim::fmt("invocation #%ld at t=%ld ms, not allowed before t_enable+%ld*d = %ld ms (d=%ld)", m.k + 1, T - W.m[slot].t_enable, m.k + 1, D - m.t_enable, m.d));
    if (pass == W.last_pass && D < W.last_D) sim::violation("C02/deadline-order", "two timers due in the same loop pass fired out of deadline order");
    W.last_pass = pass; W.last_D = D;
    ++m.k;
    if (m.oneshot) {
      m.enabled = false;
      if (slot < NEV && m.ev->isEnabled()) sim::violation("C02/oneshot-still-enabled", "isEnabled() is true inside the callback of a one-shot timer");
      if (slot >= NEV) { m.exists = false; }
    }
  }
  ++W.fires[slot];
  int prev = W.running;
  W.running = slot;
  long n = W.fires[slot];
  auto range = W.inside.equal_range({slot, n});
  std::vector<int> idx;
  for (auto it = range.first; it != range.second; ++it) idx.push_back(it->second);
  std::sort(idx.begin(), idx.end());
  for (int i : idx) apply(W.plan->ops[(size_t)i], slot);
  W.running = prev;
}

void check_sleep(int timeout_ms) {
  if (W.finished) return;
  long T = sim::now_ms();
  for (int s = 0; s < NSLOT; ++s) {
    const M &m = W.m[s];
    if (!m.exists || !m.enabled) continue;
    long D = deadline_of(m);
    long allowed = std::max(0L, D - T);
    if (timeout_ms < 0) { sim::violation("C02/sleeps-past-deadline", "the loop waits without a time-out although a timer is enabled"); return; }
    if (timeout_ms > allowed) {
      sim::violation("C02/sleeps-past-deadline", sim::fmt("the loop goes to sleep for %d ms although an enabled timer is due in %ld ms (a period was skipped or a deadline mis-computed)", timeout_ms, D - T));
      return;
    }
  }
}

void execute(const sim::Plan &plan) {
  sim::start(plan);
  sim::name_thread("loop");
  sim::fault_late_max_ms(60);
  sim::fault_rate(sim::F_LATE_WAKE, 300);
  sim::set_deadlock_handler([](const sim::DeadlockInfo &info) { sim::violation("C02/loop-never-wakes", "the loop blocks for ever before the end of the plan: " + info.summary); });
  sim::set_stepcap_handler([] { sim::violation("C02/livelock", "the loop spins without making progress (step cap)"); });
  W = World();
  W.plan = &plan;
  W.loop = Loop::New(plan.get("backend") ? "select" : "epoll");
  W.pool = new TimerPool(W.loop);
  static drv::Timeline tl;
  tl = drv::Timeline();
  int64_t t = sim::now_ns();
  for (size_t i = 0; i < plan.ops.size(); ++i) {
    const sim::Op &op = plan.ops[i];
    if (op.arg(0) >= 0) { W.inside.insert({{(int)(op.arg(0) % NSLOT), std::max(1L, op.arg(1))}, (int)i}); continue; }
    t += std::max(0L, std::min(1000L, op.arg(1))) * 1000000;
    const sim::Op *pop = &op;
    tl.at(t, [pop] {
      sim::fault_scope(pop->fseed, pop->fmask);
      W.loop->runInLoop([pop] { apply(*pop, -1); }, "c02.op");
    }, (int)i);
  }
  t += std::max(1L, std::min(2000L, plan.get("tail_ms", 50))) * 1000000;
  tl.at(t, [] {
    sim::fault_scope(0, 0);
    W.loop->runInLoop([] { W.finished = true; W.loop->exitLoop(); }, "c02.exit");
  });
  tl.install();
  sim::set_wait_entry_hook(check_sleep);
  W.loop->runLoop(Loop::Mode::kForever);
  sim::set_prewait_hook(nullptr);
  W.finished = true;
  for (int s = 0; s < NEV; ++s) if (W.m[s].exists && !W.m[s].pending_delete) { delete W.m[s].ev; W.m[s] = M(); }
  delete W.pool;
  delete W.loop;
  sim::finish();
  long fires = 0;
  for (int s = 0; s < NSLOT; ++s) fires += W.fires[s];
  sim::probe("timer_firings", fires);
}

const sim::Harness H = {"C02", "c02_timers", generate, execute};
}  // namespace

int main(int argc, char **argv) { return sim::harness_main(argc, argv, H); }
