// C09 — logging: each record once, whole and in order, per enabled sink; truncation; file roll-over; disable flushes.
// Threads mode: 1-4 logging threads call the real LogPrintfFunc front end; sinks are a recording Sink subclass
// (public API) and the real AsyncFileSink (its async-pipe back-end thread is a simulated thread).
#include <sim.h>

#include <tbox/base/log.h>
#include <tbox/base/log_impl.h>
#include <tbox/log/sink.h>
#include <tbox/log/async_file_sink.h>

#include <dirent.h>
#include <sys/stat.h>
#include <sys/syscall.h>
#include <sys/wait.h>
#include <errno.h>
#include <unistd.h>

#include <algorithm>
#include <fstream>
#include <map>
#include <sstream>
#include <string>
#include <thread>
#include <vector>

using namespace tbox;

namespace {

enum HK { H_LOG_INV = 1, H_LOG_RET, H_TID, H_REC, H_PHASE };

// ops: rec <thread> <level> <module 0..2> <len> <with_args> <yields> <sleep_ms>
//      cut <new rec level|-1> <new file level|-1> <via module-string API> <file_off> <rec_off>
//          phase boundary: all threads join; file sink disabled and checked; default levels possibly changed; for the next phase the
//          file sink is re-enabled unless file_off, the recording sink is disabled if rec_off (one sink off while the other stays on)
// cfg wall_frac_ms: the virtual wall clock starts that many ms into a second (so that stalls and sleeps cross a second boundary)
void generate(sim::Rng &r, uint64_t seed, const std::string &tier, sim::Plan &p) {
  bool thorough = tier == "thorough";
  long maxlen = r.pick((const long[]){40, 100, 2047, 2048, 2049, 5000, 100 << 10});
  p.cfg["maxlen"] = maxlen;
  long nthr = r.range(1, 4);
  p.cfg["nthr"] = nthr;
  p.cfg["rec_level"] = r.chance(500) ? 7 : r.range(0, 7);          // recording sink default level
  p.cfg["file_level"] = r.chance(500) ? 7 : r.range(0, 7);
  p.cfg["file_m1_level"] = r.chance(500) ? -1 : r.range(0, 7);       // per-module level for module m1 on the file sink (-1: unset)
  p.cfg["buff_size"] = r.pick((const long[]){64, 100, 256, 1024, 10240});
  p.cfg["buff_min"] = r.range(1, 2);
  p.cfg["buff_max"] = r.range(2, 6);
  p.cfg["interval"] = r.pick((const long[]){1, 5, 20, 100});
  p.cfg["file_max"] = r.pick((const long[]){1, 50, 200, 1000, 4096, 65536, 1 << 20});
  unsigned fmask = 0;
  if (r.chance(500)) fmask |= sim::F_SPURIOUS;
  if (r.chance(400)) fmask |= sim::F_LATE_WAKE;
  if (r.chance(450)) fmask |= sim::F_STALL;
  p.cfg["fmask"] = fmask;
  p.cfg["wall_frac_ms"] = r.chance(600) ? r.range(975, 999) : r.range(0, 999);
  p.cfg["fseed"] = (long)(r.next() >> 2);
  p.cfg["starve_max"] = nthr + 1;
  p.cfg["pct_horizon"] = 1200;
  int n = (int)r.range(1, thorough ? 60 : 24);
  int ncuts = 0;
  // transient failures to create the next log file (descriptor table full): one phase only, and the oracle tolerates a missing tail
  bool open_fail = r.chance(100);
  if (open_fail) { p.cfg["fmask"] = p.get("fmask") | sim::F_OPEN_FAIL; p.cfg["open_fail"] = 1; p.cfg["file_max"] = r.pick((const long[]){1, 50, 200}); ncuts = 6; }
  for (int i = 0; i < n; ++i) {
    sim::Op op;
    if (i > 2 && ncuts < 6 && r.chance(80)) { ++ncuts; op.kind = "cut"; long off = (long)r.below(10); op.a = {r.chance(500) ? -1 : r.range(0, 7), r.chance(500) ? -1 : r.range(0, 7), (long)r.below(2), off == 0 ? 1 : 0, off == 1 ? 1 : 0}; p.ops.push_back(op); continue; }   // [new recording-sink level, new file-sink level, via setLevel("", l) or setLevel(l)]
    op.kind = "rec";
    long len;
    unsigned x = (unsigned)r.below(100);
    if (x < 10) len = 0; else if (x < 30) len = r.range(1, 30);
    else if (x < 60) len = std::max(0L, std::min(maxlen, 3000L) + r.range(-2, 2));
    else if (x < 75) len = r.pick((const long[]){2047, 2048, 2049});
    else if (x < 85) len = std::min(300000L, maxlen * 3);
    else len = r.range(0, 400);
    if (len > 320000) len = 320000;
    op.a = {(long)r.below((uint64_t)nthr), r.range(0, 7), (long)r.below(3), len, r.chance(700) ? 1 : 0, r.range(0, 2), r.chance(150) ? r.range(1, 30) : 0};
    p.ops.push_back(op);
  }
  if (r.chance(120)) p.cfg["fork_tail"] = 1;     // drawn last: older seeds keep their plans
  sim::draw_sched(seed, p);
}

static const char *MODS[] = {"m0", "m1", "m2"};
static const char LEVEL_CODE[] = {'F', 'E', 'W', 'N', 'I', 'I', 'D', 'T'};

std::string make_text(long t, long seq, long len) {
  // printable, no newline, no '%' (one of the two front-end paths uses the text as the format)
  std::string head = "T" + std::to_string(t) + "S" + std::to_string(seq) + "|";
  std::string s = head;
  while ((long)s.size() < len) s.push_back((char)('a' + (s.size() * 7 + (size_t)seq) % 26));
  s.resize((size_t)std::max(0L, len));      // may cut into the head for tiny lengths
  return s;
}

struct Rec { long t, seq, level, mod, len; bool with_args; int phase; };

// recording sink through the public Sink API.  Everything it stores goes through libsim's history.
struct RecordingSink : public log::Sink {
  std::vector<std::string> got;     // written only under the logging front end's global lock
  std::vector<long> tid, level, sec, usec; std::vector<bool> trunc; std::vector<std::string> mod, func, file; std::vector<int> line;
  void onLogFrontEnd(const LogContent *c) override {
    got.emplace_back(c->text_ptr ? std::string(c->text_ptr, c->text_len) : std::string());
    tid.push_back(c->thread_id); level.push_back(c->level); trunc.push_back(c->text_trunc); sec.push_back((long)c->timestamp.sec); usec.push_back((long)c->timestamp.usec);
    mod.emplace_back(c->module_id ? c->module_id : ""); func.emplace_back(c->func_name ? c->func_name : ""); file.emplace_back(c->file_name ? c->file_name : ""); line.push_back(c->line);
  }
};

struct World {
  const sim::Plan *plan = nullptr;
  std::vector<Rec> recs;            // all records in plan order
  long maxlen = 0;
  std::string dir;
};
World W;

void logger_main(long t, int phase) {
  sim::cell_set(100 + (int)t, (long)syscall(SYS_gettid));   // real thread ids never enter the hashed trace
  for (size_t i = 0; i < W.recs.size(); ++i) {
    const Rec &r = W.recs[i];
    if (r.t != t || r.phase != phase) continue;
    std::string text = make_text(r.t, r.seq, r.len);
    sim::hist(H_LOG_INV, (long)i);
    sim::cell_set(1000 + 2 * (int)i, (long)((sim::now_ns() + sim::wall_offset_ns()) / 1000));
    if (r.with_args) LogPrintfFunc(MODS[r.mod], "fn", "/some/dir/file.cpp", 100 + (int)(i % 900), (int)r.level, 1, "%s", text.c_str());
    else LogPrintfFunc(MODS[r.mod], "fn", "/some/dir/file.cpp", 100 + (int)(i % 900), (int)r.level, 0, text.c_str());
    sim::cell_set(1001 + 2 * (int)i, (long)((sim::now_ns() + sim::wall_offset_ns()) / 1000));
    sim::hist(H_LOG_RET, (long)i);
    sim::relevant();
    const sim::Op *op = nullptr; size_t k = 0;
    for (const sim::Op &o : W.plan->ops) { if (o.kind == "rec") { if (k == i) { op = &o; break; } ++k; } }
    if (op) { for (long y = 0; y < op->arg(5); ++y) sim::yield(); if (op->arg(6) > 0) sim::sleep_ns(op->arg(6) * 1000000); }
  }
}

struct FileRec { std::string text; char level; long tid; std::string mod; bool trunc; std::string file; int line; long long ts_us = -1; };

bool parse_line(const std::string &ln, FileRec &fr) {
  // "L YYYY-MM-DD HH:MM:SS.uuuuuu tid module fn() text [ (TRUNCATED) ]-- file:line"
  if (ln.size() < 30 || ln[1] != ' ') return false;
  fr.level = ln[0];
  if (ln[12] != ' ' || ln[21] != '.' || ln[28] != ' ') return false;
  for (int i : {2, 3, 4, 5, 7, 8, 10, 11, 13, 14, 16, 17, 19, 20, 22, 23, 24, 25, 26, 27}) if (!isdigit((unsigned char)ln[(size_t)i])) return false;
  {
    struct tm tm; memset(&tm, 0, sizeof tm);
    tm.tm_year = atoi(ln.substr(2, 4).c_str()) - 1900; tm.tm_mon = atoi(ln.substr(7, 2).c_str()) - 1; tm.tm_mday = atoi(ln.substr(10, 2).c_str());
    tm.tm_hour = atoi(ln.substr(13, 2).c_str()); tm.tm_min = atoi(ln.substr(16, 2).c_str()); tm.tm_sec = atoi(ln.substr(19, 2).c_str());
    fr.ts_us = (long long)timegm(&tm) * 1000000LL + atol(ln.substr(22, 6).c_str());       // the process runs with TZ=UTC
  }
  size_t p = 29;
  size_t e = ln.find(' ', p); if (e == std::string::npos) return false;
  fr.tid = atol(ln.substr(p, e - p).c_str()); p = e + 1;
  e = ln.find(' ', p); if (e == std::string::npos) return false;
  fr.mod = ln.substr(p, e - p); p = e + 1;
  if (ln.compare(p, 5, "fn() ") != 0) return false;
  p += 5;
  size_t tail = ln.rfind("-- ");
  if (tail == std::string::npos || tail < p) return false;
  std::string fl = ln.substr(tail + 3);
  size_t colon = fl.rfind(':'); if (colon == std::string::npos) return false;
  fr.file = fl.substr(0, colon); fr.line = atoi(fl.c_str() + colon + 1);
  std::string mid = ln.substr(p, tail - p);     // "" | "text " | "text (TRUNCATED) "
  fr.trunc = false;
  const std::string mark = "(TRUNCATED) ";
  if (mid.size() >= mark.size() && mid.compare(mid.size() - mark.size(), mark.size(), mark) == 0) { fr.trunc = true; mid.resize(mid.size() - mark.size()); }
  if (!mid.empty()) { if (mid.back() != ' ') return false; mid.pop_back(); }
  fr.text = mid;
  return true;
}

// returns the records found in the directory, in file-creation order; reports malformed files
std::vector<FileRec> read_dir(const std::string &dir, const char *when) {
  std::vector<std::pair<std::pair<std::string, long>, std::string>> files;   // ((timestamp, postfix), path)
  DIR *d = opendir(dir.c_str());
  if (d) {
    while (struct dirent *de = readdir(d)) {
      std::string n = de->d_name;
      if (n == "." || n == ".." || n.find("latest") != std::string::npos) continue;
      // p.YYYYmmdd_HHMMSS.pid.log[.k]
      std::vector<std::string> parts; std::stringstream ss(n); std::string it;
      while (std::getline(ss, it, '.')) parts.push_back(it);
      if (parts.size() < 4) continue;
      long post = parts.size() >= 5 ? atol(parts[4].c_str()) : 0;
      files.push_back({{parts[1], post}, dir + "/" + n});
    }
    closedir(d);
  }
  std::sort(files.begin(), files.end());
  std::vector<FileRec> out;
  for (auto &f : files) {
    std::ifstream in(f.second, std::ios::binary);
    std::stringstream ss; ss << in.rdbuf();
    std::string all = ss.str();
    if (!all.empty() && all.back() != '\n') { sim::violation("C09/file-ends-with-partial-record", sim::fmt("%s: a log file does not end with a complete line", when)); }
    size_t pos = 0;
    while (pos < all.size()) {
      size_t e = all.find('\n', pos);
      if (e == std::string::npos) e = all.size();
      FileRec fr;
      if (!parse_line(all.substr(pos, e - pos), fr)) { sim::violation("C09/file-record-malformed", sim::fmt("%s: a line of a log file is not one whole record (interleaved, split or corrupted): '%.60s'", when, all.substr(pos, e - pos).c_str())); return out; }
      out.push_back(fr);
      pos = e + 1;
    }
  }
  sim::probe("log_files", (long)files.size());
  return out;
}

void check_against(const char *sink, const char *when, const std::vector<size_t> &expect_idx, const std::vector<FileRec> &got, const std::map<long, long> &tid_of, bool tolerate_missing_tail = false) {
  // every expected record exactly once, byte-exact; nothing else; per-thread order
  std::map<std::pair<long, long>, int> seen;
  std::map<long, long> last_seq;
  std::map<std::pair<long, long>, size_t> by_key;
  for (size_t i : expect_idx) by_key[{W.recs[i].t, W.recs[i].seq}] = i;
  for (const FileRec &fr : got) {
    // identify the record from its thread id and position (the text head may be cut for tiny lengths)
    long t = -1;
    for (auto &kv : tid_of) if (kv.second == fr.tid) t = kv.first;
    if (t < 0) { sim::violation("C09/record-wrong-thread-id", sim::fmt("%s %s: a record carries a thread id that is not one of the logging threads", sink, when)); return; }
    long &ls = last_seq[t];
    // the next expected record of this thread on this sink
    size_t found = (size_t)-1;
    for (size_t i : expect_idx) if (W.recs[i].t == t && W.recs[i].seq >= ls && !seen.count({t, W.recs[i].seq})) { found = i; break; }
    if (found == (size_t)-1) { sim::violation("C09/record-unexpected", sim::fmt("%s %s: a record of thread %ld appears that should not be there (duplicate, or it does not pass this sink's filter)", sink, when, t)); return; }
    const Rec &r = W.recs[found];
    std::string full = make_text(r.t, r.seq, r.len);
    bool tr = (long)full.size() > W.maxlen;
    std::string want = tr ? full.substr(0, (size_t)W.maxlen) : full;
    if (fr.text != want || fr.trunc != tr) {
      // maybe an earlier record of this thread was lost and this is a later one: report as loss/reorder if it matches a later record
      bool later = false;
      for (size_t i : expect_idx) if (W.recs[i].t == t && W.recs[i].seq > r.seq) { std::string f2 = make_text(t, W.recs[i].seq, W.recs[i].len); bool t2 = (long)f2.size() > W.maxlen; if (fr.text == (t2 ? f2.substr(0, (size_t)W.maxlen) : f2)) later = true; }
      if (later) sim::violation("C09/record-lost-or-reordered", sim::fmt("%s %s: thread %ld's record #%ld is missing before a later record of the same thread", sink, when, t, r.seq));
      else if (fr.trunc != tr || fr.text.size() != want.size()) sim::violation("C09/truncation-wrong", sim::fmt("%s %s: record of %zu characters with limit %ld came out with %zu characters, truncated mark %d (expected %zu, mark %d)", sink, when, full.size(), W.maxlen, fr.text.size(), (int)fr.trunc, want.size(), (int)tr));
      else sim::violation("C09/record-corrupt", sim::fmt("%s %s: text of thread %ld's record #%ld differs from what was logged", sink, when, t, r.seq));
      return;
    }
    if (fr.level != LEVEL_CODE[r.level] || fr.mod != MODS[r.mod] || fr.file != "file.cpp" || fr.line != 100 + (int)(found % 900)) {
      sim::violation("C09/record-fields-wrong", sim::fmt("%s %s: level/module/file/line of thread %ld's record #%ld are not intact", sink, when, t, r.seq));
      return;
    }
    {
      long long before = sim::cell_get(1000 + 2 * (int)found), after = sim::cell_get(1001 + 2 * (int)found);
      if (fr.ts_us >= 0 && (fr.ts_us < before || fr.ts_us > after)) {
        sim::violation("C09/record-time-wrong", sim::fmt("%s %s: thread %ld's record #%ld carries the time %lld.%06lld, the log call ran from %lld.%06lld to %lld.%06lld", sink, when, t, r.seq,
                                                        fr.ts_us / 1000000, fr.ts_us % 1000000, before / 1000000, before % 1000000, after / 1000000, after % 1000000));
        return;
      }
    }
    seen[{t, r.seq}] = 1;
    ls = r.seq + 1;
  }
  if (tolerate_missing_tail) return;      // a record may be missing only if every later record of its thread is missing too: gaps were reported above
  for (size_t i : expect_idx) if (!seen.count({W.recs[i].t, W.recs[i].seq})) {
    sim::violation("C09/record-missing", sim::fmt("%s %s: thread %ld's record #%ld (level %ld, module %s, %ld chars) passed the filter but is not in the sink", sink, when, W.recs[i].t, W.recs[i].seq, W.recs[i].level, MODS[W.recs[i].mod], W.recs[i].len));
    return;
  }
}

// cfg fork_tail: after the simulated part (the scheduler has been left, ids and fork() are the kernel's) the process logs one
// record, forks, and the child logs one: each record carries the id of the thread that made the call - in the child that is the
// child's id, not a value remembered from the parent.
void fork_tail() {
  RecordingSink s;
  s.setLevel(7);
  s.enable();
  LogPrintfFunc("m0", "fn", "/some/dir/file.cpp", 1, 3, 0, "before fork");
  if (s.tid.size() != 1 || s.tid[0] != (long)syscall(SYS_gettid)) { sim::violation("C09/record-fields-wrong", "thread id of a record made by the main thread is not that thread's id"); s.disable(); return; }
  fflush(nullptr);
  pid_t pid = fork();
  if (pid < 0) { s.disable(); return; }
  if (pid == 0) {
    alarm(20);
    LogPrintfFunc("m0", "fn", "/some/dir/file.cpp", 2, 3, 0, "after fork");
    _exit(s.tid.size() != 2 ? 4 : (s.tid[1] == (long)syscall(SYS_gettid) ? 0 : 3));
  }
  int st = 0;
  while (waitpid(pid, &st, 0) < 0 && errno == EINTR) {}
  s.disable();
  sim::probe("fork_tail");
  if (WIFEXITED(st) && WEXITSTATUS(st) == 3) sim::violation("C09/record-fields-wrong", "a record made in a forked child carries the parent's thread id, not the id of the calling thread");
  else if (!WIFEXITED(st) || WEXITSTATUS(st) != 0) sim::violation("C09/record-missing", sim::fmt("a log call in a forked child did not produce exactly one record (wait status 0x%x)", st));
}

void execute(const sim::Plan &plan) {
  sim::start(plan);
  sim::name_thread("main");
  sim::fault_scope((uint64_t)plan.get("fseed"), (unsigned)plan.get("fmask"));
  sim::fault_late_max_ms(30);
  sim::fault_stall_max_ms(25);
  if (plan.get("open_fail")) sim::fault_open_prefix((std::string(sim::run_dir()) + "/logs").c_str());
  {
    // start the wall clock wall_frac_ms into a second
    long frac = std::max(0L, std::min(999L, plan.get("wall_frac_ms", 0)));
    int64_t wall = sim::now_ns() + sim::wall_offset_ns();
    int64_t want = (wall / 1000000000LL) * 1000000000LL + frac * 1000000LL;
    if (want < wall) want += 1000000000LL;
    sim::set_wall_offset_ns(sim::wall_offset_ns() + (want - wall));
  }
  sim::set_deadlock_handler([](const sim::DeadlockInfo &info) { sim::violation("C09/deadlock", "logging threads / back end blocked for ever: " + info.summary); });
  sim::set_stepcap_handler([] { sim::violation("C09/livelock", "step cap reached"); });
  sim::set_step_cap(2000000);
  W = World();
  W.plan = &plan;
  W.maxlen = std::max(1L, plan.get("maxlen", 2048));
  W.dir = std::string(sim::run_dir()) + "/logs";
  long nthr = std::max(1L, std::min(4L, plan.get("nthr", 1)));
  // records
  std::vector<long> seqs((size_t)nthr, 0);
  int phase = 0, nphase = 1;
  std::vector<const sim::Op *> cuts;
  for (const sim::Op &op : plan.ops) {
    if (op.kind == "cut") { ++phase; nphase = phase + 1; cuts.push_back(&op); continue; }
    if (op.kind != "rec") continue;
    Rec r; r.t = ((op.arg(0) % nthr) + nthr) % nthr; r.level = std::max(0L, std::min(7L, op.arg(1))); r.mod = ((op.arg(2) % 3) + 3) % 3;
    r.len = std::max(0L, std::min(320000L, op.arg(3))); r.with_args = op.arg(4) != 0; r.phase = phase; r.seq = seqs[(size_t)r.t]++;
    W.recs.push_back(r);
  }
  LogSetMaxLength((size_t)W.maxlen);
  long rec_level = std::max(0L, std::min(7L, plan.get("rec_level", 7)));
  long file_level = std::max(0L, std::min(7L, plan.get("file_level", 7)));
  long file_m1 = plan.get("file_m1_level", -1);

  RecordingSink rsink;
  rsink.setLevel((int)rec_level);
  log::AsyncFileSink fsink;
  log::AsyncSink::Config cfg;
  cfg.buff_size = (size_t)std::max(16L, plan.get("buff_size", 1024));
  cfg.buff_min_num = (size_t)std::max(1L, plan.get("buff_min", 1));
  cfg.buff_max_num = (size_t)std::max((long)cfg.buff_min_num, plan.get("buff_max", 4));
  cfg.interval = (size_t)std::max(1L, plan.get("interval", 10));
  fsink.setConfig(cfg);
  fsink.setFilePath(W.dir);
  fsink.setFilePrefix("p");
  fsink.setFileMaxSize((size_t)std::max(1L, plan.get("file_max", 4096)));
  fsink.setLevel((int)file_level);
  if (file_m1 >= 0) fsink.setLevel("m1", (int)std::min(7L, file_m1));
  rsink.enable();
  fsink.enable();

  std::map<long, long> tid_of;
  std::vector<std::map<long, long>> tid_maps;   // thread ids of each phase (the kernel may hand out new ones)
  std::vector<size_t> file_expect, rec_expect;
  bool file_on = true, rec_on = true;
  for (int ph = 0; ph < nphase; ++ph) {
    std::vector<std::thread> th;
    for (long t = 0; t < nthr; ++t) th.emplace_back(logger_main, t, ph);
    for (auto &t : th) t.join();
    for (long t = 0; t < nthr; ++t) tid_of[t] = sim::cell_get(100 + (int)t);
    tid_maps.push_back(tid_of);
    // note: thread ids are reused by the kernel across phases only if the threads of the previous phase have exited — they have
    for (size_t i = 0; i < W.recs.size(); ++i) {
      const Rec &r = W.recs[i];
      if (r.phase != ph) continue;
      if (rec_on && r.level <= rec_level) rec_expect.push_back(i);
      long lim = (r.mod == 1 && file_m1 >= 0) ? std::min(7L, file_m1) : file_level;
      if (file_on && r.level <= lim) file_expect.push_back(i);
    }
    // everything logged before disable() returns is on disk when it returns
    sim::hist(H_PHASE, ph);
    fsink.disable();
    if (sim::violation_count() == 0) {
      // thread ids may repeat between phases: check this phase's tail against a per-phase tid map
      std::vector<FileRec> got = read_dir(W.dir, "right after disable()");
      // only the records of finished phases are in the files: compare the suffix belonging to this phase
      std::vector<size_t> exp_ph; for (size_t i : file_expect) if (W.recs[i].phase == ph) exp_ph.push_back(i);
      size_t before = file_expect.size() - exp_ph.size();
      if (got.size() < before) sim::violation("C09/record-missing", "records of an earlier phase disappeared from the log files");
      else {
        std::vector<FileRec> tail(got.begin() + (long)before, got.end());
        if (sim::violation_count() == 0) check_against("file sink", "right after disable()", exp_ph, tail, tid_of, plan.get("open_fail") != 0);
      }
    }
    if (ph + 1 < nphase) {
      // between phases nobody logs: change the default thresholds through the public setters
      const sim::Op *cut = cuts[(size_t)ph];
      long nr = cut->arg(0, -1), nf = cut->arg(1, -1); bool via_str = cut->arg(2) != 0;
      if (nr >= 0) { rec_level = std::min(7L, nr); if (via_str) rsink.setLevel("", (int)rec_level); else rsink.setLevel((int)rec_level); }
      if (nf >= 0) { file_level = std::min(7L, nf); if (via_str) fsink.setLevel("", (int)file_level); else fsink.setLevel((int)file_level); }
      sim::sleep_ns(1100 * 1000000LL);      // a new second: a new file name
      file_on = cut->arg(3) == 0; bool want_rec = cut->arg(4) == 0;
      if (file_on) fsink.enable(); else sim::probe("phase_with_file_sink_off");
      if (want_rec && !rec_on) rsink.enable();
      if (!want_rec && rec_on) { rsink.disable(); sim::probe("phase_with_recording_sink_off"); }
      rec_on = want_rec;
    }
  }
  if (rec_on) rsink.disable();
  sim::finish();
  if (sim::violation_count() == 0) {
    // recording sink: per phase the thread ids may repeat, so check phase by phase
    size_t off = 0;
    for (int ph = 0; ph < nphase; ++ph) {
      std::vector<size_t> exp_ph; for (size_t i : rec_expect) if (W.recs[i].phase == ph) exp_ph.push_back(i);
      std::vector<FileRec> got;
      for (size_t k = off; k < off + exp_ph.size() && k < rsink.got.size(); ++k) {
        FileRec fr; fr.text = rsink.got[k]; fr.ts_us = (long long)rsink.sec[k] * 1000000LL + rsink.usec[k]; fr.level = LEVEL_CODE[rsink.level[k]]; fr.tid = rsink.tid[k]; fr.mod = rsink.mod[k]; fr.trunc = rsink.trunc[k]; fr.file = rsink.file[k]; fr.line = rsink.line[k];
        got.push_back(fr);
      }
      check_against("recording sink", "at the end", exp_ph, got, tid_maps[(size_t)ph]);
      off += exp_ph.size();
      if (sim::violation_count()) break;
    }
    if (sim::violation_count() == 0 && rsink.got.size() != rec_expect.size())
      sim::violation("C09/record-unexpected", sim::fmt("recording sink holds %zu records, %zu pass its filter", rsink.got.size(), rec_expect.size()));
  }
  if (plan.get("fork_tail") && sim::violation_count() == 0) fork_tail();
  sim::probe("records", (long)W.recs.size());
}

const sim::Harness H = {"C09", "c09_logging", generate, execute};
}  // namespace

int main(int argc, char **argv) { return sim::harness_main(argc, argv, H); }
