// Shared driver for single-loop harnesses: a time-ordered list of external
// actions performed from the pre-wait hook of the loop thread (DESIGN.md §3.1).
#pragma once
#include <sim.h>

#include <functional>
#include <utility>
#include <vector>

namespace drv {

struct Timeline {
  struct Act { int64_t due_ns; std::function<void()> fn; int op_index; };
  std::vector<Act> acts;
  size_t next = 0;
  int64_t t0_ns = 0;

  void at(int64_t due_ns, std::function<void()> fn, int op_index = -1) { acts.push_back(Act{due_ns, std::move(fn), op_index}); }

  // Install as the pre-wait hook of the calling (loop) thread.
  void install() {
    sim::set_prewait_hook([this](uint64_t pass) -> sim::HookResult {
      sim::HookResult r;
      if (next < acts.size()) {
        if (sim::now_ns() >= acts[next].due_ns) {
          Act &a = acts[next++];
          sim::interleave_mix(((uint64_t)pass << 16) ^ (uint64_t)(a.op_index + 1));
          a.fn();
          r.acted = true;
        } else {
          r.next_due_ns = acts[next].due_ns;
        }
      }
      return r;
    });
  }
  bool done() const { return next >= acts.size(); }
};

}  // namespace drv
