// C14 — JSON-RPC: framing totality / segmentation independence / round trip, and exactly-once request completion.
// Single-loop mode.  The transport is a simulated link plugged into the seam the code already has
// (Proto::setSendCallback / Proto::onRecvData).
#include <sim.h>
#include "loopdrv.h"

#include <tbox/base/json.hpp>
#include <tbox/event/loop.h>
#include <tbox/eventx/timer_pool.h>
#include <tbox/jsonrpc/rpc.h>
#include <tbox/jsonrpc/proto.h>
#include <tbox/jsonrpc/inner_types.h>
#include <tbox/jsonrpc/protos/header_stream_proto.h>
#include <tbox/jsonrpc/protos/raw_stream_proto.h>
#include <tbox/jsonrpc/protos/packet_proto.h>

#include <algorithm>
#include <deque>
#include <map>
#include <memory>
#include <string>
#include <vector>

using namespace tbox;
using namespace tbox::event;
using namespace tbox::jsonrpc;

namespace {

// ---------------------------------------------------------------------- plan
// cfg part: 0 = framing, 1 = requests.   cfg proto: 0 header-stream, 1 raw-stream, 2 packet
// framing ops:  utf8 <which> <id>    a request whose parameter is a string that is not valid UTF-8: the encoder may refuse it (nothing is written), what it does write must decode to an equal value
//               msg <kind 0 req,1 result,2 error,3 notify> <id> <seed>     raw <seed> <len>     hdr <magic_ok> <lenkind>     mut <pos> <val>     seg <size>
// request ops:  call <dt_ms> <method 0 echo,1 later,2 twice,3 never,4 badid,5 unknown,6 fracid> <seed> <withcb> <delay_ms> <retry_on_timeout>     seg <size>
void generate(sim::Rng &r, uint64_t seed, const std::string &tier, sim::Plan &p) {
  bool thorough = tier == "thorough";
  long part = r.chance(450) ? 1 : 0;
  long proto = (long)r.below(3);
  p.cfg["part"] = part;
  p.cfg["proto"] = proto;
  p.cfg["backend"] = r.below(2);
  if (part == 0) {
    bool hostile = r.chance(450);
    p.cfg["hostile"] = hostile;
    int n = (int)r.range(1, thorough ? 14 : 8);
    for (int i = 0; i < n; ++i) {
      sim::Op op;
      unsigned x = (unsigned)r.below(100);
      if (r.chance(60)) { sim::Op u; u.kind = "utf8"; u.a = {(long)r.below(6), r.range(1, 1000)}; p.ops.push_back(u); }
      if (proto == 1 && r.chance(200)) { sim::Op ws; ws.kind = "ws"; ws.a = {(long)r.below(5)}; p.ops.push_back(ws); }     // raw stream: blanks between two JSON texts
      if (!hostile || x < 55) {
        // now and then a message whose JSON text has a size around a power of two (buffer and length-field boundaries)
        long pad_to = r.chance(130) ? r.pick((const long[]){255, 1024, 1024, 1024, 4096, 65536}) + r.range(-7, 7) : 0;
        op.kind = "msg"; op.a = {(long)r.below(4), r.range(1, 1000), (long)(r.next() & 0xffffff), pad_to};
      }
      else if (x < 70) { op.kind = "raw"; op.a = {(long)(r.next() & 0xffffff), r.range(1, 40)}; }
      else if (x < 85) { op.kind = "tricky"; op.a = {(long)r.below(64)}; }
      else { op.kind = "hdr"; op.a = {r.chance(800) ? 1 : 0, (long)r.below(8)}; }
      p.ops.push_back(op);
    }
    if (hostile) {
      int nm = (int)r.range(0, 4);
      static const long vals[] = {'{', '}', '[', ']', '"', '\\', ',', ':', 0, 0x80, 0xff, ' ', 'x', '9'};
      for (int i = 0; i < nm; ++i) { sim::Op op; op.kind = "mut"; op.a = {(long)r.below(100000), vals[r.below(14)]}; p.ops.push_back(op); }
    }
    int ns = (int)r.range(1, 10);
    for (int i = 0; i < ns; ++i) { sim::Op op; op.kind = "seg"; op.a = {r.chance(450) ? r.range(1, 3) : r.range(4, 200)}; p.ops.push_back(op); }
  } else {
    p.cfg["timeout_s"] = r.range(2, 5);
    bool long_to = r.chance(150);       // time-outs that are no small round number (the time-out ring has one slot per second)
    if (long_to) p.cfg["timeout_s"] = r.pick((const long[]){7, 11, 13, 17, 29, 35});
    p.cfg["link_delay_ms"] = r.pick((const long[]){0, 1, 10, 300, 900, 1500});
    p.cfg["jitter_ms"] = r.pick((const long[]){0, 0, 5, 700, 2500});
    p.cfg["loss"] = proto == 2 ? r.pick((const long[]){0, 0, 100, 300}) : 0;
    p.cfg["dup"] = proto == 2 ? r.pick((const long[]){0, 0, 200}) : 0;
    p.cfg["lseed"] = (long)(r.next() >> 3);
    int n = (int)r.range(1, thorough ? 20 : 10);
    for (int i = 0; i < n; ++i) {
      sim::Op op; op.kind = "call";
      long dt = r.chance(400) ? 0 : r.chance(600) ? r.range(1, 400) : r.range(400, 3000);
      op.a = {dt, (long)r.below(7), (long)(r.next() & 0xffffff), r.chance(850) ? 1 : 0, long_to && r.chance(400) ? p.get("timeout_s") * 1000 - r.pick((const long[]){2600, 1400, 600, 200}) : r.pick((const long[]){1, 10, 500, 1200, 2500, 6000}), r.chance(350) ? 1 : 0};   // last: re-issue the request from inside the callback when it times out
      // the link is used in both directions: now and then the peer asks this endpoint for something (answered at once, later, or never)
      if (r.chance(250)) { op.kind = "pcall"; op.a = {dt, (long)r.below(3), r.pick((const long[]){1, 10, 500, 1200, 2500, 6000})}; }
      p.ops.push_back(op);
    }
    int ns = (int)r.range(1, 6);
    for (int i = 0; i < ns; ++i) { sim::Op op; op.kind = "seg"; op.a = {r.chance(400) ? r.range(1, 3) : r.range(4, 200)}; p.ops.push_back(op); }
  }
  p.sched.strategy = "none";
}

// ---------------------------------------------------------------------- helpers
Json gen_json(sim::Rng &r, int depth) {
  unsigned x = (unsigned)r.below(depth >= 3 ? 6 : 9);
  static const char *strs[] = {"", "a", "he said \"hi\"", "back\\slash", "brace{", "}", "[", "]", "\\\"", "caf\xc3\xa9", "\xe4\xb8\xad", "a,b:c", "tab\t", "nl\n", "q\"\\", "{\"k\":1}"};
  switch (x) {
    case 0: return Json((int)r.range(-1000, 1000));
    case 1: return Json(r.chance(500));
    case 2: return Json(strs[r.below(16)]);
    case 3: return Json(nullptr);
    case 4: return Json((double)r.range(-50, 50) / 4.0);
    case 5: return Json(std::string(strs[r.below(16)]) + strs[r.below(16)]);
    case 6: case 7: {
      Json o = Json::object();
      int n = (int)r.range(0, 4);
      for (int i = 0; i < n; ++i) o[std::string("k") + std::to_string(i) + strs[r.below(16)]] = gen_json(r, depth + 1);
      return o;
    }
    default: {
      Json a = Json::array();
      int n = (int)r.range(0, 4);
      for (int i = 0; i < n; ++i) a.push_back(gen_json(r, depth + 1));
      return a;
    }
  }
}

// Proto has no virtual destructor: keep the concrete type in the deleter (shared_ptr does)
std::shared_ptr<Proto> make_proto(long kind) {
  if (kind == 0) return std::make_shared<HeaderStreamProto>(0x5AA5);
  if (kind == 1) return std::make_shared<RawStreamProto>();
  return std::make_shared<PacketProto>();
}

struct Decoded { std::vector<std::string> msgs; bool failed = false; long err = 0; size_t consumed = 0; };

// a receiver that keeps unconsumed bytes, as TcpConnection's receive buffer does
struct Receiver {
  Proto *proto = nullptr;
  std::string buf;
  Decoded out;
  void attach(Proto *p) {
    proto = p;
    p->setRecvCallback(
        [this](int id, const std::string &m, const Json &params) { out.msgs.push_back("REQ " + std::to_string(id) + " " + m + " " + params.dump()); },
        [this](int id, int err, const Json &res) { out.msgs.push_back("RSP " + std::to_string(id) + " " + std::to_string(err) + " " + res.dump()); });
  }
  void feed(const void *d, size_t n) {
    if (out.failed) return;
    buf.append(static_cast<const char *>(d), n);
    for (int guard = 0; guard < 100000 && !buf.empty(); ++guard) {
      ssize_t r = proto->onRecvData(buf.data(), buf.size());
      if (r > 0) {
        if ((size_t)r > buf.size()) { sim::violation("C14/consumed-more-than-given", sim::fmt("onRecvData() returned %zd for %zu bytes", r, buf.size())); out.failed = true; return; }
        buf.erase(0, (size_t)r);
        out.consumed += (size_t)r;
      } else if (r == 0) break;
      else { out.failed = true; out.err = r; break; }
    }
  }
};

// ---------------------------------------------------------------------- part 0: framing
void run_framing(const sim::Plan &plan) {
  long kind = std::max(0L, std::min(2L, plan.get("proto")));
  bool hostile = plan.get("hostile") != 0;
  // 1. encode with the framing's own encoder
  std::vector<std::string> frames;        // one entry per message / raw insertion
  std::vector<std::string> expect;        // canonical form of the well-formed messages
  std::vector<bool> wellformed;
  {
    std::shared_ptr<Proto> enc = make_proto(kind);
    std::string last;
    enc->setSendCallback([&last](const void *d, size_t n) { last.assign(static_cast<const char *>(d), n); });
    for (const sim::Op &op : plan.ops) {
      if (op.kind == "msg") {
        sim::Rng jr((uint64_t)op.arg(2) + 1);
        int id = (int)std::max(1L, std::min(100000L, op.arg(1)));
        long k = ((op.arg(0) % 4) + 4) % 4;
        std::string method = "m" + std::to_string(jr.below(5));
        Json payload = gen_json(jr, 0);
        long pad_to = std::max(0L, std::min(200000L, op.arg(3)));
        if (pad_to > 0 && k != 2) {
          // measure the text with an empty filler, then fill up to exactly pad_to bytes of JSON text
          Json wrapped = Json::object(); wrapped["p"] = payload; wrapped["z"] = "";
          last.clear();
          if (k == 1) enc->sendResult(id, wrapped); else enc->sendRequest(k == 0 ? id : 0, method, wrapped);
          long base = (long)last.size() - (kind == 0 ? 6 : 0);
          if (base > 0 && pad_to >= base) { wrapped["z"] = std::string((size_t)(pad_to - base), 'z'); payload = wrapped; sim::probe("padded_messages"); }
        }
        last.clear();
        if (k == 0) { enc->sendRequest(id, method, payload); expect.push_back("REQ " + std::to_string(id) + " " + method + " " + payload.dump()); }
        else if (k == 1) { enc->sendResult(id, payload); expect.push_back("RSP " + std::to_string(id) + " 0 " + payload.dump()); }
        else if (k == 2) { int code = (int)jr.range(-32700, -1); enc->sendError(id, code, jr.chance(500) ? "msg" : ""); expect.push_back("RSP " + std::to_string(id) + " " + std::to_string(code) + " null"); }
        else { enc->sendRequest(0, method, payload); expect.push_back("REQ 0 " + method + " " + payload.dump()); }
        frames.push_back(last); wellformed.push_back(true);
        sim::relevant();
      } else if (op.kind == "utf8") {
        static const char *const BAD[] = {"\xe4\xb8", "caf\xe9", "\xff\xfe", "a\x80" "b", "\xc0\xaf", "\xed\xa0\x80"};
        Json payload = std::string("x") + BAD[((op.arg(0) % 6) + 6) % 6] + "y";
        int id = (int)std::max(1L, std::min(100000L, op.arg(1)));
        last.clear();
        bool threw = false;
        try { enc->sendRequest(id, "m0", payload); } catch (const std::exception &) { threw = true; }
        sim::probe(threw ? "invalid_utf8_refused" : "invalid_utf8_written");
        if (threw && !last.empty()) sim::violation("C14/partial-frame-written", "the encoder refused a message (exception) after it had written a frame for it");
        if (!threw && !last.empty()) {
          // written: it has to come out as the value that went in (compared byte for byte in the canonical form, bad bytes kept)
          frames.push_back(last); wellformed.push_back(true);
          expect.push_back("REQ " + std::to_string(id) + " m0 " + payload.dump(-1, ' ', false, Json::error_handler_t::ignore));
        }
      } else if (op.kind == "ws" && kind == 1) {
        // white space between JSON texts is not a message and must not disturb the ones around it
        static const char *const WS[] = {"\n", "\r\n", " ", " \t ", "\n\n  "};
        frames.push_back(WS[((op.arg(0) % 5) + 5) % 5]); wellformed.push_back(true);
        sim::probe("blanks_between_texts");
      } else if (op.kind == "raw" && hostile) {
        sim::Rng rr((uint64_t)op.arg(0) + 9);
        static const char alpha[] = "{}[]\"\\,:0a \n\x80\xff\x00t";
        std::string s;
        long n = std::max(1L, std::min(200L, op.arg(1)));
        for (long i = 0; i < n; ++i) s.push_back(alpha[rr.below(sizeof(alpha) - 1)]);
        frames.push_back(s); wellformed.push_back(false);
      } else if (op.kind == "tricky" && hostile) {
        // correctly framed texts that are (nearly) JSON-RPC but stress the JSON library's other failure modes:
        // numbers out of range, wrong member types, lone surrogates, NUL, deep nesting, duplicate members, several documents
        static const char *const T[] = {
          "{\"jsonrpc\":\"2.0\",\"id\":1,\"method\":\"m\",\"params\":1e999}", "{\"jsonrpc\":\"2.0\",\"id\":1,\"result\":-1E400}", "[1e999]",
          "{\"jsonrpc\":\"2.0\",\"id\":1e999,\"method\":\"m\"}", "{\"jsonrpc\":\"2.0\",\"id\":{\"a\":1},\"method\":\"m\"}", "{\"jsonrpc\":\"2.0\",\"id\":\"str\",\"result\":1}",
          "{\"jsonrpc\":\"2.0\",\"id\":1,\"method\":5}", "{\"jsonrpc\":\"2.0\",\"id\":1,\"error\":\"notobject\"}", "{\"jsonrpc\":\"2.0\",\"id\":1,\"error\":{\"code\":\"x\"}}",
          "{\"jsonrpc\":2,\"id\":1,\"method\":\"m\"}", "\"just a string\"", "12345", "null", "true", "[]", "{}",
          "{\"jsonrpc\":\"2.0\",\"id\":18446744073709551616,\"method\":\"m\"}", "{\"jsonrpc\":\"2.0\",\"id\":-9223372036854775809,\"result\":0}",
          "{\"jsonrpc\":\"2.0\",\"id\":4294967296,\"method\":\"m\"}", "{\"jsonrpc\":\"2.0\",\"id\":-1,\"result\":0}",
          "{\"jsonrpc\":\"2.0\",\"method\":\"m\",\"params\":\"\\ud800\"}", "{\"jsonrpc\":\"2.0\",\"method\":\"m\",\"params\":\"\\u0000\"}", "{\"jsonrpc\":\"2.0\",\"method\":\"\\udc00x\"}",
          "{\"jsonrpc\":\"2.0\",\"id\":1,\"method\":\"m\",\"id\":2}", "{\"a\":1}{\"b\":2}", "{\"jsonrpc\":\"2.0\",\"id\":1.5,\"method\":\"m\"}", "{\"jsonrpc\":\"2.0\",\"id\":true,\"result\":{}}",
          "{\"jsonrpc\":\"2.0\",\"id\":1,\"result\":1,\"error\":{\"code\":1}}", "{\"jsonrpc\":\"2.0\",\"id\":1,\"error\":{\"code\":1e999,\"message\":1}}", "{\"jsonrpc\":\"2.0\",\"id\":null,\"method\":\"m\"}",
          "{\"jsonrpc\":\"2.0\",\"id\":1,\"method\":null,\"params\":null}", "{\"jsonrpc\":\"2.0\",\"id\":1,\"error\":{\"code\":-32000,\"message\":{\"x\":[1e999]}}}", "1e999", "-0", "[[[[[[[[[[[[[[[[[[[[[[[[[[[[[[[[1]]]]]]]]]]]]]]]]]]]]]]]]]]]]]]]]",
        };
        const size_t NT = sizeof(T) / sizeof(T[0]);
        std::string text = T[(size_t)(((op.arg(0) % (long)NT) + (long)NT) % (long)NT)];
        if (op.arg(0) % 64 >= 48) { text.assign(300, '['); text += "1"; text.append(300, ']'); }      // deep nesting
        std::string s;
        if (kind == 0) { uint32_t L = (uint32_t)text.size(); s.push_back((char)0x5A); s.push_back((char)0xA5); s.push_back((char)(L >> 24)); s.push_back((char)(L >> 16)); s.push_back((char)(L >> 8)); s.push_back((char)L); }
        s += text;
        frames.push_back(s); wellformed.push_back(false);
        sim::probe("tricky_frames");
      } else if (op.kind == "hdr" && hostile) {
        static const uint32_t lens[] = {0, 1, 0xFFFFFFFAu, 0xFFFFFFFBu, 0xFFFFFFFEu, 0xFFFFFFFFu, 0x7FFFFFFFu, 100000};
        uint32_t L = lens[((op.arg(1) % 8) + 8) % 8];
        std::string s;
        uint16_t magic = op.arg(0) ? 0x5AA5 : 0x1234;
        s.push_back((char)(magic >> 8)); s.push_back((char)(magic & 0xff));
        s.push_back((char)(L >> 24)); s.push_back((char)(L >> 16)); s.push_back((char)(L >> 8)); s.push_back((char)L);
        s += "{}";
        frames.push_back(s); wellformed.push_back(false);
      }
    }
  }
  bool pure = std::all_of(wellformed.begin(), wellformed.end(), [](bool b) { return b; });
  if (kind == 2) {
    // datagram framing: one onRecvData per datagram; round trip and totality only
    std::shared_ptr<Proto> dec = make_proto(kind);
    Receiver rx; rx.attach(dec.get());
    size_t ei = 0;
    for (size_t i = 0; i < frames.size(); ++i) {
      std::string f = frames[i];
      if (hostile) for (const sim::Op &op : plan.ops) if (op.kind == "mut" && !f.empty() && (size_t)(std::max(0L, op.arg(0)) % 7) == i % 7) f[(size_t)(std::max(0L, op.arg(0)) % (long)f.size())] = (char)op.arg(1);
      size_t before = rx.out.msgs.size();
      ssize_t r = dec->onRecvData(f.data(), f.size());
      if (r > (ssize_t)f.size()) sim::violation("C14/consumed-more-than-given", "packet framing consumed more than the datagram");
      if (wellformed[i] && f == frames[i]) {
        if (rx.out.msgs.size() != before + 1 || rx.out.msgs.back() != expect[ei])
          sim::violation("C14/round-trip-differs", sim::fmt("packet framing: datagram #%zu written by the encoder did not decode to an equal message", i));
      }
      if (wellformed[i]) ++ei;
    }
    return;
  }
  std::string stream;
  for (auto &f : frames) stream += f;
  if (hostile && !stream.empty())
    for (const sim::Op &op : plan.ops) if (op.kind == "mut") stream[(size_t)(std::max(0L, op.arg(0)) % (long)stream.size())] = (char)op.arg(1);
  bool mutated = false;
  for (const sim::Op &op : plan.ops) if (op.kind == "mut" && hostile) mutated = true;
  // 2. unsegmented
  Decoded whole, segd;
  {
    std::shared_ptr<Proto> dec = make_proto(kind);
    Receiver rx; rx.attach(dec.get());
    rx.feed(stream.data(), stream.size());
    whole = rx.out;
  }
  // 3. segmented
  {
    std::shared_ptr<Proto> dec = make_proto(kind);
    Receiver rx; rx.attach(dec.get());
    std::vector<long> segs;
    for (const sim::Op &op : plan.ops) if (op.kind == "seg") segs.push_back(std::max(1L, op.arg(0)));
    if (segs.empty()) segs.push_back(1);
    size_t off = 0, si = 0;
    while (off < stream.size()) {
      size_t n = std::min<size_t>(stream.size() - off, (size_t)segs[si++ % segs.size()]);
      rx.feed(stream.data() + off, n);
      off += n;
    }
    segd = rx.out;
  }
  if (whole.msgs != segd.msgs || whole.failed != segd.failed || whole.consumed != segd.consumed) {
    size_t i = 0;
    while (i < whole.msgs.size() && i < segd.msgs.size() && whole.msgs[i] == segd.msgs[i]) ++i;
    sim::violation("C14/segmentation-dependent", sim::fmt("%s framing: unsegmented delivery decoded %zu messages (consumed %zu bytes, failed=%d), segmented delivery %zu messages (consumed %zu, failed=%d); first difference at message %zu",
                                                          kind == 0 ? "header-stream" : "raw-stream", whole.msgs.size(), whole.consumed, (int)whole.failed, segd.msgs.size(), segd.consumed, (int)segd.failed, i));
  }
  if (pure && !mutated) {
    if (whole.msgs != expect || whole.failed)
      sim::violation("C14/round-trip-differs", sim::fmt("%s framing: %zu messages written by the encoder decoded to %zu messages (failed=%d) or to different JSON values", kind == 0 ? "header-stream" : "raw-stream", expect.size(), whole.msgs.size(), (int)whole.failed));
  }
  sim::probe("frames", (long)frames.size());
}

// ---------------------------------------------------------------------- part 1: requests over a simulated link
struct Chunk { int64_t at_ns; uint64_t seq; std::string bytes; int resp_id; };

struct Call {
  int64_t t_call = 0;
  int rpc_id = 0;           // id allocated by Rpc (1,2,3... for calls with a callback)
  long method = 0; long seed = 0; bool withcb = false;
  int callbacks = 0; int64_t t_cb = 0; int cb_err = 0; std::string cb_result;
  int64_t t_resp_delivered = -1;    // first response frame for this id delivered to the caller's proto
  std::string expect_result;
};

struct RpcWorld {
  Loop *loop = nullptr;
  eventx::TimerPool *tp = nullptr;
  std::shared_ptr<Proto> pa, pb;
  Rpc *ra = nullptr, *rb = nullptr;
  Receiver *dummy = nullptr;
  long kind = 0;
  std::vector<Chunk> a2b, b2a;           // pending chunks of each direction
  std::string bufA, bufB;                // receive buffers (stream framings)
  bool failA = false, failB = false;
  uint64_t seq = 0;
  int cur_resp_id = 0;                   // set by service code around respond()
  sim::Rng lrng;
  long delay_ms = 0, jitter_ms = 0, loss = 0, dup = 0;
  std::vector<long> segs; size_t segi = 0;
  std::vector<Call> calls;
  std::map<int, size_t> by_rpc_id;
  bool pump_posted = false;
  std::vector<int> peer_cbs;      // completion callbacks of the requests the peer made
  int64_t last_at_a2b = 0, last_at_b2a = 0;
};
RpcWorld *R = nullptr;

void link_send(bool from_a, const void *d, size_t n) {
  std::vector<Chunk> &q = from_a ? R->a2b : R->b2a;
  int64_t &last_at = from_a ? R->last_at_a2b : R->last_at_b2a;
  std::string all(static_cast<const char *>(d), n);
  int resp = 0;
  if (!from_a) {
    // which request does this frame answer?  (read from the frame itself; the harness never guesses)
    try {
      Json js = Json::parse(all.substr(R->kind == 0 ? 6 : 0));
      if (js.is_object() && (js.contains("result") || js.contains("error")) && js.contains("id") && js["id"].is_number_integer()) resp = js["id"].get<int>();
    } catch (...) {}
  }
  if (R->kind == 2) {
    if (R->loss && R->lrng.chance((unsigned)R->loss)) { sim::probe("datagram_lost"); return; }
    int copies = (R->dup && R->lrng.chance((unsigned)R->dup)) ? 2 : 1;
    if (copies == 2) sim::probe("datagram_duplicated");
    for (int c = 0; c < copies; ++c) {
      int64_t at = sim::now_ns() + (R->delay_ms + (R->jitter_ms ? (long)R->lrng.below((uint64_t)R->jitter_ms + 1) : 0)) * 1000000;
      q.push_back(Chunk{at, ++R->seq, all, resp});
    }
    return;
  }
  // ordered byte pipe, re-segmented
  size_t off = 0;
  while (off < all.size()) {
    size_t sz = all.size() - off;
    if (!R->segs.empty()) sz = std::min<size_t>(sz, (size_t)R->segs[R->segi++ % R->segs.size()]);
    int64_t at = sim::now_ns() + (R->delay_ms + (R->jitter_ms ? (long)R->lrng.below((uint64_t)R->jitter_ms + 1) : 0)) * 1000000;
    if (at < last_at) at = last_at;      // a stream never reorders
    last_at = at;
    bool last_piece = off + sz >= all.size();
    q.push_back(Chunk{at, ++R->seq, all.substr(off, sz), last_piece ? resp : 0});
    off += sz;
  }
}

void deliver(bool to_a, Chunk &c) {
  Proto *p = to_a ? R->pa.get() : R->pb.get();
  std::string &buf = to_a ? R->bufA : R->bufB;
  bool &fail = to_a ? R->failA : R->failB;
  if (to_a && c.resp_id) {
    auto it = R->by_rpc_id.find(c.resp_id);
    if (it != R->by_rpc_id.end() && R->calls[it->second].t_resp_delivered < 0) R->calls[it->second].t_resp_delivered = sim::now_ns();
  }
  if (R->kind == 2) { p->onRecvData(c.bytes.data(), c.bytes.size()); return; }
  if (fail) return;
  buf += c.bytes;
  for (int guard = 0; guard < 10000 && !buf.empty(); ++guard) {
    ssize_t r = p->onRecvData(buf.data(), buf.size());
    if (r > 0) buf.erase(0, std::min<size_t>((size_t)r, buf.size()));
    else if (r == 0) break;
    else { fail = true; sim::violation("C14/link-stream-rejected", "a stream of frames written by the peer's own encoder was rejected by the decoder"); break; }
  }
}

void pump() {
  R->pump_posted = false;
  for (int dir = 0; dir < 2; ++dir) {
    std::vector<Chunk> &q = dir == 0 ? R->a2b : R->b2a;
    for (;;) {
      // earliest due chunk (by time, then sequence)
      int best = -1;
      for (size_t i = 0; i < q.size(); ++i)
        if (q[i].at_ns <= sim::now_ns() && (best < 0 || q[i].at_ns < q[(size_t)best].at_ns || (q[i].at_ns == q[(size_t)best].at_ns && q[i].seq < q[(size_t)best].seq))) best = (int)i;
      if (best < 0) break;
      Chunk c = q[(size_t)best];
      q.erase(q.begin() + best);
      deliver(dir == 1, c);
    }
  }
}

int64_t link_next_due() {
  int64_t d = -1;
  for (auto *q : {&R->a2b, &R->b2a}) for (auto &c : *q) if (d < 0 || c.at_ns < d) d = c.at_ns;
  return d;
}

Json expected_result_of(long seed) { sim::Rng jr((uint64_t)seed + 5); return gen_json(jr, 1); }

static const char *MN[] = {"echo", "later", "twice", "never", "badid", "nosuchmethod", "fracid"};

// issue one request on endpoint A; `retries` > 0: when the callback reports a time-out, the same request is issued
// again from inside that callback (the usual "retry on time-out" pattern)
void issue_call(long method, long seed, bool withcb, long delay_ms, int retries) {
  Call c;
  c.t_call = sim::now_ns();
  c.method = method; c.seed = seed; c.withcb = withcb;
  Json v = expected_result_of(c.seed);
  Json params = v;
  if (c.method == 1 || c.method == 2 || c.method == 6) { params = Json::object(); params["v"] = v; params["d"] = delay_ms; }
  c.expect_result = v.dump();
  size_t idx = R->calls.size();
  if (c.withcb) {
    c.rpc_id = (int)R->by_rpc_id.size() + 1;        // Rpc allocates 1,2,3,... for requests with a callback
    R->by_rpc_id[c.rpc_id] = idx;
  }
  R->calls.push_back(c);
  sim::relevant();
  if (c.withcb) {
    R->ra->request(MN[c.method], params, [idx, method, seed, delay_ms, retries](int err, const Json &res) {
      { Call &cc = R->calls[idx]; ++cc.callbacks; cc.t_cb = sim::now_ns(); cc.cb_err = err; cc.cb_result = res.dump(); }
      sim::trace("callback call#%zu err=%d", idx, err);
      if (err == ErrorCode::kRequestTimeout && retries > 0 && R->calls.size() < 40) { sim::probe("retry_from_timeout_callback"); issue_call(method, seed, true, delay_ms, retries - 1); }
    });
  } else R->ra->notify(MN[c.method], params);
}

void run_requests(const sim::Plan &plan) {
  RpcWorld W;
  R = &W;
  W.kind = std::max(0L, std::min(2L, plan.get("proto")));
  W.loop = Loop::New(plan.get("backend") ? "select" : "epoll");
  W.tp = new eventx::TimerPool(W.loop);
  W.pa = make_proto(W.kind); W.pb = make_proto(W.kind);
  W.ra = new Rpc(W.loop); W.rb = new Rpc(W.loop);
  long timeout_s = std::max(2L, std::min(40L, plan.get("timeout_s", 3)));
  W.ra->initialize(W.pa.get(), (int)timeout_s);
  W.rb->initialize(W.pb.get(), (int)timeout_s);
  W.pa->setSendCallback([](const void *d, size_t n) { link_send(true, d, n); });
  W.pb->setSendCallback([](const void *d, size_t n) { link_send(false, d, n); });
  W.lrng = sim::Rng((uint64_t)plan.get("lseed"), "link");
  W.delay_ms = std::max(0L, plan.get("link_delay_ms")); W.jitter_ms = std::max(0L, plan.get("jitter_ms"));
  W.loss = plan.get("loss"); W.dup = plan.get("dup");
  for (const sim::Op &op : plan.ops) if (op.kind == "seg") W.segs.push_back(std::max(1L, op.arg(0)));

  // services on B
  W.rb->addService("echo", [](int id, const Json &params, int &, Json &res) { R->cur_resp_id = id; res = params; return true; });
  W.rb->addService("later", [](int id, const Json &params, int &, Json &) {
    long d = params.is_object() && params.contains("d") ? params["d"].get<long>() : 1;
    Json payload = params.is_object() && params.contains("v") ? params["v"] : Json();
    R->tp->doAfter(std::chrono::milliseconds(std::max(1L, d)), [id, payload] { R->cur_resp_id = id; R->rb->respond(id, payload); R->cur_resp_id = 0; });
    return false;
  });
  W.rb->addService("twice", [](int id, const Json &params, int &, Json &res) {
    Json payload = params.is_object() && params.contains("v") ? params["v"] : Json();
    long d = params.is_object() && params.contains("d") ? params["d"].get<long>() : 1;
    R->tp->doAfter(std::chrono::milliseconds(std::max(1L, d)), [id, payload] { R->rb->respond(id, payload); });   // a true duplicate of the first response
    R->cur_resp_id = id; res = payload; return true;
  });
  W.rb->addService("never", [](int, const Json &, int &, Json &) { return false; });
  W.rb->addService("badid", [](int id, const Json &, int &, Json &) {
    R->tp->doAfter(std::chrono::milliseconds(1), [id] { R->cur_resp_id = 0; R->rb->respond(id + 100000, Json("stray")); });
    return false;
  });

  // a peer that first sends a response whose id is a number but not this request's id (id + 0.5, id + 0.25), in result or
  // error form, hand-framed; the genuine response follows: the request must complete with the genuine one
  W.rb->addService("fracid", [](int id, const Json &params, int &, Json &) {
    Json payload = params.is_object() && params.contains("v") ? params["v"] : Json();
    long d = params.is_object() && params.contains("d") ? params["d"].get<long>() : 1;
    std::string frac = (id % 2) ? ".5" : ".25";
    std::string text = (d % 2) ? "{\"id\":" + std::to_string(id) + frac + ",\"jsonrpc\":\"2.0\",\"result\":\"bogus\"}"
                               : "{\"error\":{\"code\":-5,\"message\":\"bogus\"},\"id\":" + std::to_string(id) + frac + ",\"jsonrpc\":\"2.0\"}";
    std::string f;
    if (R->kind == 0) { uint32_t L = (uint32_t)text.size(); f.push_back((char)0x5A); f.push_back((char)0xA5); f.push_back((char)(L >> 24)); f.push_back((char)(L >> 16)); f.push_back((char)(L >> 8)); f.push_back((char)L); }
    f += text;
    link_send(false, f.data(), f.size());
    sim::probe("fractional_id_responses");
    R->tp->doAfter(std::chrono::milliseconds(std::max(1L, d)), [id, payload] { R->cur_resp_id = id; R->rb->respond(id, payload); R->cur_resp_id = 0; });
    return false;
  });

  // services on A, asked for by the peer (endpoint B uses the same Rpc class, so its ids also count 1, 2, 3, ...)
  W.ra->addService("aecho", [](int, const Json &params, int &, Json &res) { res = params; return true; });
  W.ra->addService("alater", [](int id, const Json &params, int &, Json &) {
    long d = params.is_number_integer() ? params.get<long>() : 1;
    R->tp->doAfter(std::chrono::milliseconds(std::max(1L, d)), [id] { R->ra->respond(id, Json("late")); });
    return false;
  });
  W.ra->addService("anever", [](int, const Json &, int &, Json &) { return false; });

  static drv::Timeline tl;
  tl = drv::Timeline();
  int64_t t = sim::now_ns();
  for (size_t i = 0; i < plan.ops.size(); ++i) {
    const sim::Op *op = &plan.ops[i];
    if (op->kind == "pcall") {
      t += std::max(0L, std::min(10000L, op->arg(0))) * 1000000;
      tl.at(t, [op] {
        R->loop->runInLoop([op] {
          static const char *PM[] = {"aecho", "alater", "anever"};
          size_t k = R->peer_cbs.size(); R->peer_cbs.push_back(0);
          R->rb->request(PM[((op->arg(1) % 3) + 3) % 3], Json(std::max(1L, std::min(20000L, op->arg(2)))), [k](int, const Json &) { ++R->peer_cbs[k]; });
          sim::probe("peer_requests");
        }, "c14.pcall");
      }, (int)i);
      continue;
    }
    if (op->kind != "call") continue;
    t += std::max(0L, std::min(10000L, op->arg(0))) * 1000000;
    tl.at(t, [op] {
      R->loop->runInLoop([op] { issue_call(((op->arg(1) % 7) + 7) % 7, op->arg(2), op->arg(3) != 0, std::max(1L, std::min(20000L, op->arg(4))), op->arg(5) != 0 ? 1 : 0); }, "c14.call");
    }, (int)i);
  }
  int64_t t_end = t + (2 * timeout_s + 9) * 1000000000LL;
  bool exit_posted = false;
  sim::set_prewait_hook([&](uint64_t pass) -> sim::HookResult {
    sim::HookResult r;
    if (tl.next < tl.acts.size() && sim::now_ns() >= tl.acts[tl.next].due_ns) {
      drv::Timeline::Act &a = tl.acts[tl.next++];
      sim::interleave_mix(((uint64_t)pass << 16) ^ (uint64_t)(a.op_index + 1));
      a.fn(); r.acted = true; return r;
    }
    int64_t ld = link_next_due();
    if (ld >= 0 && sim::now_ns() >= ld && !R->pump_posted) { R->pump_posted = true; R->loop->runInLoop(pump, "c14.pump"); r.acted = true; return r; }
    if (sim::now_ns() >= t_end && !exit_posted) { exit_posted = true; R->loop->runInLoop([] { R->loop->exitLoop(); }, "c14.exit"); r.acted = true; return r; }
    int64_t nd = t_end;
    if (tl.next < tl.acts.size()) nd = std::min(nd, tl.acts[tl.next].due_ns);
    if (ld >= 0 && !R->pump_posted) nd = std::min(nd, ld);
    r.next_due_ns = exit_posted ? -1 : nd;
    return r;
  });
  W.loop->runLoop(Loop::Mode::kForever);
  sim::set_prewait_hook(nullptr);

  // ---- oracle
  const int64_t S = 1000000000LL;
  for (size_t i = 0; i < W.calls.size(); ++i) {
    Call &c = W.calls[i];
    if (!c.withcb) continue;
    if (c.callbacks != 1) {
      sim::violation(c.callbacks == 0 ? "C14/request-callback-never-invoked" : "C14/request-callback-invoked-twice",
                     sim::fmt("request #%zu (%s): completion callback invoked %d times by %ld s after the last deadline", i, MN[c.method], c.callbacks, 8L));
      continue;
    }
    int64_t lo = c.t_call + (timeout_s - 1) * S, hi = c.t_call + timeout_s * S;
    bool delivered = c.t_resp_delivered >= 0;
    bool is_timeout = c.cb_err == ErrorCode::kRequestTimeout;
    if (delivered && c.t_resp_delivered < lo) {
      if (is_timeout) { sim::violation("C14/timeout-despite-response", sim::fmt("request #%zu (%s): the matching response was delivered %.3f s after the request (time-out %ld s) but the callback got a time-out", i, MN[c.method], (c.t_resp_delivered - c.t_call) / 1e9, timeout_s)); continue; }
      if (c.t_cb != c.t_resp_delivered) sim::violation("C14/callback-not-at-response", "the callback did not run when the matching response was delivered");
      if (c.method == 5) { if (c.cb_err != ErrorCode::kMethodNotFound) sim::violation("C14/wrong-response", "unknown method: expected a method-not-found error"); }
      else if (c.cb_err != 0 || c.cb_result != c.expect_result) sim::violation("C14/wrong-response", sim::fmt("request #%zu (%s): callback got err=%d result=%s, expected the matching response %s", i, MN[c.method], c.cb_err, c.cb_result.substr(0, 60).c_str(), c.expect_result.substr(0, 60).c_str()));
    } else if (!delivered || c.t_resp_delivered > hi) {
      if (!is_timeout) sim::violation("C14/response-without-delivery", sim::fmt("request #%zu (%s): no matching response was delivered before the deadline, yet the callback got err=%d", i, MN[c.method], c.cb_err));
      else if (c.t_cb < lo || c.t_cb > hi + S / 1000) sim::violation("C14/timeout-at-wrong-time", sim::fmt("request #%zu: time-out reported %.3f s after the request; configured %ld s (one-second ring granularity)", i, (c.t_cb - c.t_call) / 1e9, timeout_s));
    }
    // in the window in between both outcomes are acceptable
  }
  for (size_t i = 0; i < W.peer_cbs.size(); ++i) if (W.peer_cbs[i] != 1) { sim::violation(W.peer_cbs[i] == 0 ? "C14/request-callback-never-invoked" : "C14/request-callback-invoked-twice", sim::fmt("request #%zu made by the peer endpoint: completion callback invoked %d times", i, W.peer_cbs[i])); break; }
  delete W.ra; delete W.rb;
  W.pa.reset(); W.pb.reset();
  delete W.tp;
  delete W.loop;
  R = nullptr;
}

void execute(const sim::Plan &plan) {
  sim::start(plan);
  sim::name_thread("loop");
  sim::set_deadlock_handler([](const sim::DeadlockInfo &info) { sim::violation("C14/loop-never-wakes", "the loop blocks for ever before the end of the plan: " + info.summary); });
  sim::set_stepcap_handler([] { sim::violation("C14/livelock", "step cap reached"); });
  if (plan.get("part") == 0) run_framing(plan);
  else run_requests(plan);
  sim::finish();
}

const sim::Harness H = {"C14", "c14_jsonrpc", generate, execute};
}  // namespace

int main(int argc, char **argv) { return sim::harness_main(argc, argv, H); }
