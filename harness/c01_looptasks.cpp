// C01 — deferred tasks of event::Loop: exactly once, on the loop thread, ordered, no lost wake-up.
// Threads mode: T0 = driver (also destroys the loop), loop-runner thread(s), submitter threads.
#include <sim.h>

#include <tbox/event/loop.h>

#include <algorithm>
#include <map>
#include <thread>
#include <vector>

using namespace tbox::event;

namespace {

enum HK { H_SUB_INV = 1, H_SUB_RET, H_EXEC, H_CANCEL, H_RUN_BEGIN, H_RUN_END, H_QUIESCE, H_DESTROY_BEGIN, H_DESTROY_END, H_EXIT_POSTED };
enum Entry { E_RUNINLOOP = 0, E_RUNNEXT = 1, E_RUN = 2 };
enum Cell { C_IN_JOIN_LOOP = 1, C_PENDING_EXPECTED = 2, C_LOOP_TID = 3, C_RUNID_BASE = 16 };   // cells 16.. hold RunIds (low 32 bits are enough here)

// op: sub <actor> <phase> <child_entry> <grandchild_entry> <cancel_target> <yields_after> <sleep_after_ms> <busy_ms>
//   busy_ms : the task keeps the thread that runs it busy for that long (a slow callback: the pass outlasts the loop's cost water line of 100 ms)
//   actor  : submitter thread index
//   phase  : (on the first op of an actor) when the submitter thread is started: 0 before the loop starts,
//            1 while it runs, 2 together with the exit request, 3 after the loop has stopped
//   child_entry / grandchild_entry : -1 none, 0 runInLoop, 1 runNext, 2 run — submitted from inside the task
//   cancel_target : -1 none, else task index t: the task, when it runs, calls cancel(run id of t) if that id is known
// cfg fatal=1 (a small separate scenario, select back end): a task posts n_inloop runInLoop() and n_next runNext() tasks and the
//   loop's next wait call fails with a fatal error (ENOMEM): the loop ends by itself, and what is pending then must be run during
//   that shutdown like at any other stop
void generate(sim::Rng &r, uint64_t seed, const std::string &tier, sim::Plan &p) {
  bool thorough = tier == "thorough";
  if (r.chance(30)) { p.cfg["fatal"] = 1; p.cfg["n_inloop"] = r.range(0, 3); p.cfg["n_next"] = r.range(0, 3); p.cfg["fatal_seed"] = (long)(r.next() >> 2); }
  long nsub = r.range(1, 4);
  p.cfg["nsub"] = nsub;
  p.cfg["backend"] = r.below(2);
  p.cfg["rerun"] = r.chance(500) ? 1 : 0;
  p.cfg["pre_main"] = r.range(0, 3);     // tasks submitted by the driver itself before anything starts (runNext/runInLoop/run single-threaded)
  unsigned fmask = 0;
  if (r.chance(400)) fmask |= sim::F_WAIT_EINTR;
  if (r.chance(400)) fmask |= sim::F_LATE_WAKE;
  if (r.chance(300)) fmask |= sim::F_STALL;
  p.cfg["fmask"] = fmask;
  p.cfg["fseed"] = (long)(r.next() >> 2);
  p.cfg["starve_max"] = nsub + 1;
  p.cfg["pct_horizon"] = 500;
  int total = (int)r.range(1, thorough ? 40 : 18);
  std::vector<long> phase((size_t)nsub);
  for (long i = 0; i < nsub; ++i) phase[(size_t)i] = r.range(0, 3);
  for (int i = 0; i < total; ++i) {
    sim::Op op;
    op.kind = "sub";
    long actor = (long)r.below((uint64_t)nsub);
    long child = r.chance(350) ? r.range(0, 2) : -1;
    long grand = (child >= 0 && r.chance(300)) ? r.range(0, 2) : -1;
    long cancel = r.chance(300) ? (long)r.below((uint64_t)total * 3) : -1;
    op.a = {actor, phase[(size_t)actor], child, grand, cancel, r.range(0, 2), r.chance(200) ? r.range(1, 3) : 0, r.chance(60) ? r.range(101, 160) : r.chance(60) ? r.range(1, 40) : 0};
    p.ops.push_back(op);
  }
  sim::draw_sched(seed, p);
}

struct World {
  Loop *loop = nullptr;
  const sim::Plan *plan = nullptr;
  long N = 0;      // number of top-level tasks (= ops); child of i is N+i, grandchild 2N+i, driver pre-tasks 3N+k
};
World W;

void submit(int id, int entry);

// what a task does when it runs
void task_body(int id) {
  sim::hist(H_EXEC, id);
  long N = W.N;
  int top = id % (int)N;
  int gen = id / (int)N;
  if (gen >= 3) return;                   // driver pre-task: no behaviour
  const sim::Op &op = W.plan->ops[(size_t)top];
  if (gen == 0 && op.arg(7) > 0) { sim::probe("slow_tasks"); sim::sleep_ns(std::min(300L, op.arg(7)) * 1000000); }
  if (gen == 0) {
    long ct = op.arg(4, -1);
    if (ct >= 0) {
      int target = (int)(ct % (3 * N));
      long rid = sim::cell_get(C_RUNID_BASE + target);
      if (rid != 0) {   // the target may be the running task itself (cancel must then answer false)
        bool ok = W.loop->cancel((Loop::RunId)rid);
        sim::hist(H_CANCEL, target, ok, id);
        sim::relevant();
      }
    }
    if (op.arg(2, -1) >= 0) submit((int)N + top, (int)op.arg(2));
  } else if (gen == 1) {
    if (op.arg(3, -1) >= 0) submit(2 * (int)N + top, (int)op.arg(3));
  }
}

void submit(int id, int entry) {
  sim::hist(H_SUB_INV, id, entry);
  Loop::RunId rid = 0;
  auto f = [id] { task_body(id); };
  if (entry == E_RUNINLOOP) rid = W.loop->runInLoop(f, "c01");
  else if (entry == E_RUNNEXT) rid = W.loop->runNext(f, "c01");
  else rid = W.loop->run(f, "c01");
  sim::cell_set(C_RUNID_BASE + id, (long)rid);
  sim::hist(H_SUB_RET, id, entry, (long)(rid & 1), rid != 0);
  sim::relevant();
}

void submitter_main(long actor) {
  for (size_t i = 0; i < W.plan->ops.size(); ++i) {
    const sim::Op &op = W.plan->ops[i];
    if (op.arg(0) != actor) continue;
    submit((int)i, E_RUNINLOOP);           // the thread-safe entry point
    for (long k = 0; k < op.arg(5); ++k) sim::yield();
    if (op.arg(6) > 0) sim::sleep_ns(op.arg(6) * 1000000);
  }
}

void loop_runner() {
  sim::cell_set(C_LOOP_TID, sim::self());
  sim::hist(H_RUN_BEGIN);
  W.loop->runLoop(Loop::Mode::kForever);
  sim::hist(H_RUN_END);
}

struct TI {
  uint64_t sub_inv = 0, sub_ret = 0, exec = 0;
  int sub_tid = -1, entry = -1, execs = 0, exec_tid = -1;
  bool accepted = false;
  bool cancelled = false;
};

// Wait until the loop thread is parked in its wait call with nothing ready for it (however long stalls and late wake-ups take):
// whatever is still pending then can only be run by another wake-up, which nobody is going to send.
static void wait_loop_idle() {
  for (int i = 0; i < 2000; ++i) {
    sim::sleep_ns(50 * 1000000);
    long tid = sim::cell_get(C_LOOP_TID);
    if (tid >= 0 && sim::thread_idle((int)tid)) return;
  }
  sim::violation("C01/loop-never-idle", "the loop thread did not come to rest within 100 s of virtual time after the last submission");
}

static void check_all_executed(const char *when) {
  // every accepted, uncancelled task submitted so far must have run
  std::map<long, TI> T;
  for (const sim::HEvent &e : sim::history()) {
    if (e.kind == H_SUB_INV) { T[e.a].sub_inv = e.seq; }
    else if (e.kind == H_SUB_RET) { T[e.a].sub_ret = e.seq; T[e.a].accepted = e.d != 0; }
    else if (e.kind == H_EXEC) { T[e.a].execs++; }
    else if (e.kind == H_CANCEL && e.b) { T[e.a].cancelled = true; }
  }
  int pending = 0; long ex = -1;
  for (auto &kv : T) if (kv.second.sub_ret && kv.second.accepted && !kv.second.cancelled && kv.second.execs == 0) { ++pending; ex = kv.first; }
  sim::hist(H_QUIESCE, pending);
  if (pending)
    sim::violation("C01/pending-task-while-loop-sleeps",
                   sim::fmt("%s: every submitter has finished and the loop thread is blocked in its wait call, yet %d accepted, uncancelled task(s) (e.g. #%ld) have not run: a wake-up was lost", when, pending, ex));
}

void execute_fatal(const sim::Plan &plan) {
  sim::name_thread("loop");
  sim::set_deadlock_handler([](const sim::DeadlockInfo &info) { sim::violation("C01/loop-survives-fatal-wait-error", "the loop neither ended nor made progress after its wait call failed: " + info.summary); });
  sim::set_stepcap_handler([] { sim::violation("C01/loop-survives-fatal-wait-error", "the loop spins after its wait call failed with a fatal error (step cap)"); });
  Loop *loop = Loop::New("select");
  long ni = std::max(0L, std::min(3L, plan.get("n_inloop"))), nn = std::max(0L, std::min(3L, plan.get("n_next")));
  static std::vector<int> ran; ran.assign((size_t)(ni + nn), 0);
  static bool returned; returned = false;
  uint64_t fseed = (uint64_t)plan.get("fatal_seed");
  loop->runNext([loop, ni, nn, fseed] {
    for (long k = 0; k < ni; ++k) loop->runInLoop([k] { ++ran[(size_t)k]; if (returned) sim::probe("ran_after_runloop_returned"); }, "c01.fatal.inloop");
    for (long k = 0; k < nn; ++k) loop->runNext([k, ni] { ++ran[(size_t)(ni + k)]; }, "c01.fatal.next");
    sim::fault_scope(fseed, sim::F_WAIT_FATAL);       // the very next wait call of this thread fails
    sim::relevant();
  }, "c01.fatal.starter");
  loop->runLoop(Loop::Mode::kForever);
  sim::fault_scope(0, 0);
  returned = true;
  sim::probe("loops_ended_by_a_fatal_wait_error");
  // the loop has stopped: everything that was pending has been run by its shutdown, once
  for (size_t k = 0; k < ran.size(); ++k)
    if (ran[k] != 1 && sim::violation_count() == 0)
      sim::violation(ran[k] == 0 ? "C01/pending-task-not-run-at-loop-stop" : "C01/task-ran-twice", sim::fmt("the loop ended on a fatal error of its wait call; %s task #%zu posted before that had run %d times when runLoop() returned", k < (size_t)ni ? "runInLoop" : "runNext", k, ran[k]));
  if (loop->isRunning() && sim::violation_count() == 0) sim::violation("C01/loop-reports-running-after-stop", "isRunning() is true after runLoop() returned");
  delete loop;
  sim::finish();
}

void execute(const sim::Plan &plan) {
  sim::start(plan);
  if (plan.get("fatal")) { execute_fatal(plan); return; }
  sim::name_thread("driver");
  sim::fault_scope((uint64_t)plan.get("fseed"), (unsigned)plan.get("fmask"));
  sim::fault_late_max_ms(10);
  sim::set_deadlock_handler([](const sim::DeadlockInfo &info) {
    if (sim::cell_get(C_IN_JOIN_LOOP)) sim::violation("C01/exit-request-never-served", "the loop thread never returned from runLoop() after exitLoop() was posted with runInLoop(): " + info.summary);
    else sim::violation("C01/deadlock", info.summary);
  });
  W.plan = &plan;
  W.N = std::max<long>(1, (long)plan.ops.size());
  long N = W.N;
  long nsub = std::max(1L, std::min(4L, plan.get("nsub", 1)));
  W.loop = Loop::New(plan.get("backend") ? "select" : "epoll");

  // driver's own single-threaded submissions before anything runs
  long pre = std::max(0L, std::min(3L, plan.get("pre_main")));
  for (long k = 0; k < pre; ++k) submit((int)(3 * N + k), (int)(k % 3));

  std::vector<long> first_phase((size_t)nsub, 3);
  std::vector<bool> has_ops((size_t)nsub, false);
  for (const sim::Op &op : plan.ops) {
    long a = op.arg(0);
    if (a < 0 || a >= nsub) continue;
    if (!has_ops[(size_t)a]) { has_ops[(size_t)a] = true; first_phase[(size_t)a] = std::max(0L, std::min(3L, op.arg(1))); }
  }
  std::vector<std::thread> subs((size_t)nsub);
  auto spawn_phase = [&](long ph) {
    for (long a = 0; a < nsub; ++a)
      if (has_ops[(size_t)a] && first_phase[(size_t)a] == ph) subs[(size_t)a] = std::thread(submitter_main, a);
  };
  auto join_phase = [&](long ph) {
    for (long a = 0; a < nsub; ++a)
      if (has_ops[(size_t)a] && first_phase[(size_t)a] == ph && subs[(size_t)a].joinable()) subs[(size_t)a].join();
  };

  spawn_phase(0);
  std::thread l1(loop_runner);
  spawn_phase(1);
  join_phase(0);
  join_phase(1);
  wait_loop_idle();
  check_all_executed("first run");
  Loop *lp = W.loop;
  sim::hist(H_EXIT_POSTED);
  lp->runInLoop([lp] { lp->exitLoop(); }, "c01.exit");
  spawn_phase(2);
  sim::cell_set(C_IN_JOIN_LOOP, 1);
  l1.join();
  sim::cell_set(C_IN_JOIN_LOOP, 0);
  spawn_phase(3);
  join_phase(2);
  join_phase(3);
  if (plan.get("rerun")) {
    std::thread l2(loop_runner);
    wait_loop_idle();
    check_all_executed("second run");
    sim::hist(H_EXIT_POSTED);
    lp->runInLoop([lp] { lp->exitLoop(); }, "c01.exit2");
    sim::cell_set(C_IN_JOIN_LOOP, 1);
    l2.join();
    sim::cell_set(C_IN_JOIN_LOOP, 0);
  }
  sim::hist(H_DESTROY_BEGIN);
  delete W.loop;
  W.loop = nullptr;
  sim::hist(H_DESTROY_END);
  sim::finish();

  // ---------------------------------------------------------------- oracle over the history
  const std::vector<sim::HEvent> &h = sim::history();
  std::map<long, TI> T;
  int running_tid = -1;          // thread currently inside runLoop()
  bool destroying = false;
  for (const sim::HEvent &e : h) {
    switch (e.kind) {
      case H_RUN_BEGIN: running_tid = e.tid; break;
      case H_RUN_END: running_tid = -1; break;
      case H_DESTROY_BEGIN: destroying = true; break;
      case H_DESTROY_END: destroying = false; break;
      case H_SUB_INV: { TI &t = T[e.a]; t.sub_inv = e.seq; t.sub_tid = e.tid; t.entry = (int)e.b; break; }
      case H_SUB_RET: { TI &t = T[e.a]; t.sub_ret = e.seq; t.accepted = e.d != 0;
        if (!t.accepted) sim::violation("C01/submission-rejected", "a deferred-execution entry point returned run id 0");
        break; }
      case H_EXEC: {
        TI &t = T[e.a];
        if (++t.execs > 1) sim::violation("C01/task-executed-twice", sim::fmt("a callable was invoked %d times", t.execs));
        t.exec = e.seq; t.exec_tid = e.tid;
        if (t.cancelled) sim::violation("C01/cancelled-task-runs", "cancel() returned true but the callable was invoked afterwards");
        if (running_tid >= 0) {
          if (e.tid != running_tid) sim::violation("C01/task-on-wrong-thread", sim::fmt("callable invoked on thread T%d while T%d is running the loop", e.tid, running_tid));
        } else if (destroying) {
          if (e.tid != 0) sim::violation("C01/task-on-wrong-thread", "callable invoked during destruction on a thread other than the destroying one");
        } else {
          sim::violation("C01/task-on-wrong-thread", sim::fmt("callable invoked on T%d while no thread is running or destroying the loop", e.tid));
        }
        break;
      }
      case H_CANCEL: {
        TI &t = T[e.a];
        if (e.b) {
          if (t.execs) sim::violation("C01/cancel-true-after-execution", "cancel() returned true for a callable that had already been invoked");
          t.cancelled = true;
        }
        break;
      }
      default: break;
    }
  }
  for (auto &kv : T) {
    TI &t = kv.second;
    if (!t.accepted) continue;
    if (t.cancelled && t.execs) continue;  // reported above
    if (!t.cancelled && t.execs == 0)
      sim::violation("C01/task-dropped", sim::fmt("an accepted callable (entry %s, submitted by T%d) was never invoked although it was not cancelled and the loop has been destroyed",
                                                  t.entry == 0 ? "runInLoop" : t.entry == 1 ? "runNext" : "run", t.sub_tid));
  }
  // order per (submitting thread, entry point): execution order == submission order
  std::map<std::pair<int, int>, std::vector<std::pair<uint64_t, uint64_t>>> groups;   // (tid, effective queue) -> (sub_inv, exec)
  for (auto &kv : T) {
    TI &t = kv.second;
    if (!t.accepted || t.execs != 1) continue;
    groups[{t.sub_tid, t.entry}].push_back({t.sub_inv, t.exec});
  }
  for (auto &g : groups) {
    auto &v = g.second;
    std::sort(v.begin(), v.end());
    for (size_t i = 1; i < v.size(); ++i)
      if (v[i].second < v[i - 1].second) {
        sim::violation("C01/order-violated", sim::fmt("two callables submitted by T%d through %s ran in the opposite order", g.first.first,
                                                      g.first.second == 0 ? "runInLoop" : g.first.second == 1 ? "runNext" : "run"));
        break;
      }
  }
}

const sim::Harness H = {"C01", "c01_looptasks", generate, execute};
}  // namespace

int main(int argc, char **argv) { return sim::harness_main(argc, argv, H); }
