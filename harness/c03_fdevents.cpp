// C03 — descriptor events: callbacks only on enabled+ready events, mutation inside callbacks is safe,
// epoll and select agree on order-free scenarios.  Single-loop mode.
#include <sim.h>
#include "loopdrv.h"

#include <tbox/event/loop.h>
#include <tbox/event/fd_event.h>
#include <tbox/event/timer_event.h>

#include <errno.h>
#include <fcntl.h>
#include <sys/socket.h>
#include <unistd.h>

#include <algorithm>
#include <map>
#include <sstream>
#include <vector>

using namespace tbox::event;

namespace {

const int MAXFD = 4, MAXEV = 8;
enum { R = 1, Wm = 2 };

// ops
//   ev <fdidx> <mask> <oneshot> <enabled> <wdis>                    define an event (before the loop starts)
//   wr|rawrd|fill|unfill|closepeer -1 <dt> <fd> <n>                  driver-side readiness control (from the pre-wait hook)
//   en|dis|del -1 <dt> <target>                                      posted to the loop
//   ten|tdis|tdel -1 <dt> <target>                                   performed by a loop timer that expires at that time (so it can
//                                                                    run in the same pass as descriptor callbacks, before them)
//   reinit <ctx|-1> <nth|dt> <target> <mask> <oneshot> <newfd|-1>     initialize() again, on the same or on another descriptor, with another mask/mode
//                                                                    (refused while the event is enabled; the model follows the answer)
//   en|dis|del|rd|noread <ctx> <nth> <target|n>                      inside the callback of event ctx on its nth invocation
void generate(sim::Rng &r, uint64_t seed, const std::string &tier, sim::Plan &p) {
  bool thorough = tier == "thorough";
  long nfd = r.range(1, MAXFD);
  p.cfg["nfd"] = nfd;
  long nev = r.range(1, MAXEV);
  bool samefd_only = r.chance(350);
  p.cfg["setup_interleaved"] = r.chance(500) ? 1 : 0;   // every event is enabled right after its initialize(), so later events are initialised on descriptors that are already being watched
  p.cfg["backend"] = samefd_only ? 2 : r.below(2);   // 0 epoll, 1 select, 2 both + comparison (when the plan is order-free)   // order-free family: callbacks never touch events of another descriptor
  std::vector<long> evfd;
  for (long e = 0; e < nev; ++e) {
    sim::Op op; op.kind = "ev";
    long fd = (long)r.below((uint64_t)nfd);
    evfd.push_back(fd);
    op.a = {fd, r.range(1, 3), r.chance(300) ? 1 : 0, r.chance(800) ? 1 : 0, r.range(1, 3)};
    p.ops.push_back(op);
  }
  int n = (int)r.range(2, thorough ? 50 : 24);
  for (int i = 0; i < n; ++i) {
    sim::Op op;
    bool inside = r.chance(500);
    if (!inside) {
      long dt = r.chance(500) ? 0 : r.range(1, 5);
      unsigned x = (unsigned)r.below(100);
      long fd = (long)r.below((uint64_t)nfd);
      if (x < 45) { op.kind = "wr"; op.a = {-1, dt, fd, r.range(1, 5)}; }
      else if (x < 52) { op.kind = "rawrd"; op.a = {-1, dt, fd, r.range(1, 5)}; }
      else if (x < 58) { op.kind = "fill"; op.a = {-1, dt, fd, 0}; }
      else if (x < 64) { op.kind = "unfill"; op.a = {-1, dt, fd, 0}; }
      else if (x < 68 && !samefd_only) { op.kind = "closepeer"; op.a = {-1, dt, fd, 0}; }
      else if (x < 80 && !samefd_only) { op.kind = "en"; op.a = {-1, dt, (long)r.below((uint64_t)nev)}; }
      else if (x < 90 && !samefd_only) { op.kind = "dis"; op.a = {-1, dt, (long)r.below((uint64_t)nev)}; }
      else if (x < 93 && !samefd_only) { op.kind = "del"; op.a = {-1, dt, (long)r.below((uint64_t)nev)}; }
      else if (x < 95 && !samefd_only) { op.kind = "reinit"; op.a = {-1, dt, (long)r.below((uint64_t)nev), r.range(1, 3), r.chance(300) ? 1 : 0, r.chance(400) ? (long)r.below((uint64_t)nfd) : -1}; }
      else if (x < 98 && !samefd_only) { op.kind = r.chance(500) ? "tdel" : r.chance(500) ? "tdis" : "ten"; op.a = {-1, dt, (long)r.below((uint64_t)nev)}; }
      else { op.kind = "wr"; op.a = {-1, dt, fd, 1}; }
      if (!samefd_only && r.chance(300)) { op.fseed = r.next() >> 2; op.fmask = sim::F_EVENT_SUBSET | (r.chance(300) ? sim::F_WAIT_EINTR : 0); }
    } else {
      long ctx = (long)r.below((uint64_t)nev);
      long nth = r.range(1, 4);
      long target = (long)r.below((uint64_t)nev);
      if (samefd_only) {
        std::vector<long> same;
        for (long e = 0; e < nev; ++e) if (evfd[(size_t)e] == evfd[(size_t)ctx]) same.push_back(e);
        target = same[r.below(same.size())];
      } else if (r.chance(300)) target = ctx;
      unsigned x = (unsigned)r.below(100);
      if (x < 25) { op.kind = "dis"; op.a = {ctx, nth, target}; }
      else if (x < 45) { op.kind = "en"; op.a = {ctx, nth, target}; }
      else if (x < 64) { op.kind = "del"; op.a = {ctx, nth, target}; }
      else if (x < 70) { op.kind = "reinit"; op.a = {ctx, nth, target, r.range(1, 3), r.chance(300) ? 1 : 0, (!samefd_only && r.chance(400)) ? (long)r.below((uint64_t)nfd) : -1}; }
      else if (x < 88) { op.kind = "rd"; op.a = {ctx, nth, r.range(1, 3)}; }
      else { op.kind = "noread"; op.a = {ctx, nth, 0}; }
    }
    p.ops.push_back(op);
  }
  p.sched.strategy = "none";
}

struct EvModel {
  FdEvent *ev = nullptr;
  bool exists = false, enabled = false, oneshot = false, pending_delete = false;
  int fdidx = 0, mask = 0, wdis = 1;
  long fires = 0;
};

struct Rec { uint64_t group; int ev; int mask; };

struct World {
  Loop *loop = nullptr;
  const sim::Plan *plan = nullptr;
  int backend = 0;
  int nfd = 0, nev = 0;
  int a[MAXFD], b[MAXFD];            // a = tbox side, b = driver side
  long in_bytes[MAXFD];              // written by the driver, not yet read on the tbox side
  bool filled[MAXFD], peer_closed[MAXFD];
  bool snap_r[MAXFD], snap_w[MAXFD];
  EvModel m[MAXEV];
  int running = -1;
  std::multimap<std::pair<int, long>, int> inside;
  std::vector<Rec> recs;
  uint64_t group = 0;                // bumped at every wait entry
  bool finished = false;
  long callbacks = 0;
  long same_pass_multi_fd = 0;
  std::vector<TimerEvent *> timers;
};
World W;

void set_nonblock(int fd) { int fl = fcntl(fd, F_GETFL); fcntl(fd, F_SETFL, fl | O_NONBLOCK); }

void on_event(int e, short events);

void make_event(int e, int fdidx, int mask, bool oneshot, int wdis) {
  EvModel &m = W.m[e];
  m = EvModel();
  m.ev = W.loop->newFdEvent("c03");
  m.exists = true; m.fdidx = fdidx; m.mask = mask; m.oneshot = oneshot; m.wdis = wdis;
  short tm = 0;
  if (mask & R) tm |= FdEvent::kReadEvent;
  if (mask & Wm) tm |= FdEvent::kWriteEvent;
  m.ev->initialize(W.a[fdidx], tm, oneshot ? Event::Mode::kOneshot : Event::Mode::kPersist);
  m.ev->setCallback([e](short ev) { on_event(e, ev); });
}

void do_enable(int t) {
  EvModel &m = W.m[t];
  if (!m.exists || m.pending_delete) return;
  m.ev->enable();
  m.enabled = true;
  if (!m.ev->isEnabled()) sim::violation("C03/isenabled-after-enable", "isEnabled() false right after enable()");
  sim::trace("enable ev%d", t);
}
void do_disable(int t) {
  EvModel &m = W.m[t];
  if (!m.exists || m.pending_delete) return;
  m.ev->disable();
  m.enabled = false;
  sim::trace("disable ev%d", t);
}
void do_reinit(int t, int mask, bool oneshot, long newfd = -1) {
  EvModel &m = W.m[t];
  if (!m.exists || m.pending_delete) return;
  int fdidx = newfd >= 0 ? (int)(newfd % W.nfd) : m.fdidx;
  short tm = 0;
  if (mask & R) tm |= FdEvent::kReadEvent;
  if (mask & Wm) tm |= FdEvent::kWriteEvent;
  bool was = m.ev->isEnabled();
  bool ok = m.ev->initialize(W.a[fdidx], tm, oneshot ? Event::Mode::kOneshot : Event::Mode::kPersist);
  sim::trace("reinit ev%d fd%d->fd%d mask=%d oneshot=%d -> %d (enabled=%d)", t, m.fdidx, fdidx, mask, (int)oneshot, (int)ok, (int)m.enabled);
  if (fdidx != m.fdidx) sim::probe("reinit_on_another_descriptor");
  sim::probe(m.enabled ? "reinit_while_enabled" : "reinit_while_disabled");
  // whatever the answer, what the event does afterwards must agree with it: accepted = the new mask and mode are in force
  if (ok) { m.mask = mask; m.oneshot = oneshot; m.fdidx = fdidx; }
  if (m.ev->isEnabled() != was) sim::violation("C03/isenabled-after-initialize", "initialize() changed what isEnabled() reports");
}
void do_delete(int t, int running) {
  EvModel &m = W.m[t];
  if (!m.exists || m.pending_delete) return;
  if (t == running) {
    // the running event is destroyed through a deferred task, as the API requires; it is disabled first
    m.ev->disable();
    m.enabled = false;
    m.pending_delete = true;
    FdEvent *ev = m.ev;
    W.loop->runNext([t, ev] { delete ev; W.m[t] = EvModel(); sim::trace("deferred delete ev%d", t); }, "c03.delete");
    sim::trace("delete(deferred) ev%d", t);
  } else {
    delete m.ev;
    m = EvModel();
    sim::trace("delete ev%d", t);
  }
}

long read_tbox_side(int fdidx, long want) {
  char buf[256];
  long total = 0;
  while (want < 0 || total < want) {
    size_t n = sizeof buf;
    if (want >= 0 && (long)n > want - total) n = (size_t)(want - total);
    ssize_t r = sim::raw::read(W.a[fdidx], buf, n);
    if (r > 0) { total += r; W.in_bytes[fdidx] -= r; }
    else if (r == 0) return total == 0 ? -1 : total;   // EOF
    else break;
  }
  return total;
}

void on_event(int e, short events) {
  EvModel &m = W.m[e];
  ++W.callbacks;
  int rep = ((events & FdEvent::kReadEvent) ? R : 0) | ((events & FdEvent::kWriteEvent) ? Wm : 0);
  sim::trace("cb ev%d events=%d", e, (int)events);
  bool valid = true;
  if (!m.exists) { sim::violation("C03/callback-on-destroyed-event", "callback invoked on an event that has been destroyed"); valid = false; }
  else if (m.pending_delete) { sim::violation("C03/callback-on-disabled-event", "callback invoked on an event that was disabled and queued for deletion"); valid = false; }
  else if (!m.enabled) { sim::violation("C03/callback-on-disabled-event", "callback invoked on an event that is disabled"); valid = false; }
  if (!valid) return;
  W.recs.push_back(Rec{W.group, e, rep});
  int fd = m.fdidx;
  if ((rep & m.mask) == 0) sim::violation("C03/callback-without-subscribed-condition", sim::fmt("reported mask %d does not intersect the subscribed mask %d", rep, m.mask));
  if (!W.peer_closed[fd]) {
    if ((rep & R) && !W.snap_r[fd]) sim::violation("C03/reported-readable-but-not-ready", "readable reported although no byte was pending on the descriptor when the pass began");
    if ((rep & Wm) && !W.snap_w[fd]) sim::violation("C03/reported-writable-but-not-ready", "writable reported although the descriptor's send buffer was full when the pass began");
  }
  if (m.oneshot) {
    m.enabled = false;
    if (m.ev->isEnabled()) sim::violation("C03/oneshot-still-enabled", "a one-shot event is still enabled when its callback runs");
  }
  ++m.fires;
  long nth = m.fires;
  int prev = W.running;
  W.running = e;
  bool custom_read = false;
  auto range = W.inside.equal_range({e, nth});
  std::vector<int> idx;
  for (auto it = range.first; it != range.second; ++it) idx.push_back(it->second);
  std::sort(idx.begin(), idx.end());
  bool eof = false;
  for (int i : idx) {
    const sim::Op &op = W.plan->ops[(size_t)i];
    sim::relevant();
    if (op.kind == "rd") { custom_read = true; if (rep & R) { if (read_tbox_side(fd, std::max(1L, op.arg(2))) < 0) eof = true; } }
    else if (op.kind == "noread") custom_read = true;
    else {
      int t = (int)(((op.arg(2) % W.nev) + W.nev) % W.nev);
      if (op.kind == "en") do_enable(t);
      else if (op.kind == "dis") do_disable(t);
      else if (op.kind == "del") do_delete(t, e);
      else if (op.kind == "reinit") do_reinit(t, (int)std::max(1L, std::min(3L, op.arg(3))), op.arg(4) != 0, op.arg(5, -1));
    }
  }
  // default behaviour keeps the scenario finite under level-triggered readiness
  EvModel &m2 = W.m[e];
  if (m2.exists && !m2.pending_delete) {
    if ((rep & R) && (m2.mask & R) && !custom_read) { if (read_tbox_side(fd, -1) < 0) eof = true; }
    if (eof && m2.enabled) do_disable(e);
    if ((m2.mask & Wm) && m2.enabled && m2.fires >= m2.wdis) do_disable(e);
    // a reader that declined to read must not spin for ever: after 6 invocations it drains
    if ((m2.mask & R) && m2.fires >= 6 && m2.enabled) { if (read_tbox_side(fd, -1) < 0) do_disable(e); }
  }
  W.running = prev;
}

void snapshot() {
  for (int f = 0; f < W.nfd; ++f) {
    W.snap_r[f] = W.in_bytes[f] > 0 || W.peer_closed[f];
    W.snap_w[f] = !W.filled[f] || W.peer_closed[f];
  }
}

struct RunResult { std::vector<std::vector<std::pair<int, int>>> groups; };

RunResult run_once(const sim::Plan &plan, int backend) {
  W = World();
  W.plan = &plan;
  W.backend = backend;
  W.nfd = (int)std::max(1L, std::min((long)MAXFD, plan.get("nfd", 1)));
  for (int f = 0; f < W.nfd; ++f) {
    int sv[2];
    if (socketpair(AF_UNIX, SOCK_STREAM, 0, sv) != 0) { perror("socketpair"); _exit(3); }
    W.a[f] = sv[0]; W.b[f] = sv[1];
    set_nonblock(sv[0]); set_nonblock(sv[1]);
    int sz = 4096;
    setsockopt(sv[0], SOL_SOCKET, SO_SNDBUF, &sz, sizeof sz);
    W.in_bytes[f] = 0; W.filled[f] = false; W.peer_closed[f] = false;
  }
  W.loop = Loop::New(backend ? "select" : "epoll");
  // events
  std::vector<int> enable_at_start;
  for (const sim::Op &op : plan.ops) {
    if (op.kind != "ev" || W.nev >= MAXEV) continue;
    int e = W.nev++;
    int fdidx = (int)(((op.arg(0) % W.nfd) + W.nfd) % W.nfd);
    int mask = (int)std::max(1L, std::min(3L, op.arg(1)));
    make_event(e, fdidx, mask, op.arg(2) != 0, (int)std::max(1L, std::min(3L, op.arg(4, 1))));
    if (op.arg(3)) { if (plan.get("setup_interleaved")) do_enable(e); else enable_at_start.push_back(e); }
  }
  if (W.nev == 0) { W.nev = 1; make_event(0, 0, R, false, 1); }
  for (int e : enable_at_start) do_enable(e);

  static drv::Timeline tl;
  tl = drv::Timeline();
  int64_t t = sim::now_ns();
  for (size_t i = 0; i < plan.ops.size(); ++i) {
    const sim::Op &op = plan.ops[i];
    if (op.kind == "ev") continue;
    if (op.arg(0) >= 0) { W.inside.insert({{(int)(op.arg(0) % W.nev), std::max(1L, op.arg(1))}, (int)i}); continue; }
    t += std::max(0L, std::min(100L, op.arg(1))) * 1000000;
    const sim::Op *pop = &op;
    if (op.kind == "ten" || op.kind == "tdis" || op.kind == "tdel") {
      long ms = (long)((t - sim::now_ns()) / 1000000);
      TimerEvent *te = W.loop->newTimerEvent("c03.timer");
      te->initialize(std::chrono::milliseconds(std::max(1L, ms)), Event::Mode::kOneshot);
      te->setCallback([pop] {
        int tg = (int)(((pop->arg(2) % W.nev) + W.nev) % W.nev);
        sim::trace("timer op %s ev%d", pop->kind.c_str(), tg);
        sim::relevant();
        if (pop->kind == "ten") do_enable(tg);
        else if (pop->kind == "tdis") do_disable(tg);
        else do_delete(tg, -1);
      });
      te->enable();
      W.timers.push_back(te);
      continue;
    }
    tl.at(t, [pop] {
      sim::fault_scope(pop->fseed, pop->fmask);
      sim::relevant();
      const std::string &k = pop->kind;
      if (k == "en" || k == "dis" || k == "del" || k == "reinit") {
        W.loop->runInLoop([pop] {
          int tg = (int)(((pop->arg(2) % W.nev) + W.nev) % W.nev);
          if (pop->kind == "en") do_enable(tg);
          else if (pop->kind == "dis") do_disable(tg);
          else if (pop->kind == "reinit") do_reinit(tg, (int)std::max(1L, std::min(3L, pop->arg(3))), pop->arg(4) != 0, pop->arg(5, -1));
          else do_delete(tg, -1);
        }, "c03.op");
        return;
      }
      int f = (int)(((pop->arg(2) % W.nfd) + W.nfd) % W.nfd);
      if (k == "wr") {
        if (W.peer_closed[f]) return;
        long n = std::max(1L, std::min(64L, pop->arg(3)));
        char buf[64]; memset(buf, 'x', sizeof buf);
        ssize_t w = sim::raw::write(W.b[f], buf, (size_t)n);
        if (w > 0) W.in_bytes[f] += w;
        sim::trace("wr fd%d %zd", f, w);
      } else if (k == "rawrd") {
        long got = read_tbox_side(f, std::max(1L, pop->arg(3)));
        sim::trace("rawrd fd%d %ld", f, got);
      } else if (k == "fill") {
        if (W.peer_closed[f]) return;
        char buf[1024]; memset(buf, 'f', sizeof buf);
        for (int it = 0; it < 4096; ++it) { ssize_t w = sim::raw::send(W.a[f], buf, sizeof buf, MSG_NOSIGNAL); if (w <= 0) break; }
        W.filled[f] = true;
        sim::trace("fill fd%d", f);
      } else if (k == "unfill") {
        if (W.peer_closed[f]) return;
        char buf[4096];
        while (sim::raw::read(W.b[f], buf, sizeof buf) > 0) {}
        W.filled[f] = false;
        sim::trace("unfill fd%d", f);
      } else if (k == "closepeer") {
        if (!W.peer_closed[f]) { close(W.b[f]); W.peer_closed[f] = true; sim::trace("closepeer fd%d", f); }
      }
    }, (int)i);
  }
  t += 20 * 1000000;
  tl.at(t, [] { sim::fault_scope(0, 0); W.loop->runInLoop([] { W.finished = true; W.loop->exitLoop(); }, "c03.exit"); });
  tl.install();
  sim::set_wait_entry_hook([](int) { ++W.group; });
  // the hook runs right before every probe: the state it sees is the state at the start of the pass
  {
    drv::Timeline *ptl = &tl;
    sim::set_prewait_hook([ptl](uint64_t pass) -> sim::HookResult {
      sim::HookResult r;
      if (ptl->next < ptl->acts.size()) {
        if (sim::now_ns() >= ptl->acts[ptl->next].due_ns) {
          drv::Timeline::Act &a = ptl->acts[ptl->next++];
          sim::interleave_mix(((uint64_t)pass << 16) ^ (uint64_t)(a.op_index + 1));
          a.fn();
          r.acted = true;
        } else r.next_due_ns = ptl->acts[ptl->next].due_ns;
      }
      snapshot();
      return r;
    });
  }
  try {
    W.loop->runLoop(Loop::Mode::kForever);
  } catch (const std::exception &ex) {
    sim::violation("C03/exception-from-runloop", sim::fmt("%s escaped from runLoop(): %s", typeid(ex).name(), ex.what()));
  } catch (...) {
    sim::violation("C03/exception-from-runloop", "an exception escaped from runLoop()");
  }
  sim::set_prewait_hook(nullptr);
  sim::set_wait_entry_hook(nullptr);
  W.finished = true;
  for (TimerEvent *te : W.timers) delete te;
  W.timers.clear();
  for (int e = 0; e < W.nev; ++e) if (W.m[e].exists && !W.m[e].pending_delete) { delete W.m[e].ev; W.m[e] = EvModel(); }
  if (sim::violation_count() == 0) delete W.loop;   // after an escaped exception the loop object is in an undefined state
  for (int f = 0; f < W.nfd; ++f) { close(W.a[f]); if (!W.peer_closed[f]) close(W.b[f]); }
  RunResult rr;
  uint64_t cur = 0; bool any = false;
  for (const Rec &rc : W.recs) {
    if (!any || rc.group != cur) { rr.groups.emplace_back(); cur = rc.group; any = true; }
    rr.groups.back().push_back({rc.ev, rc.mask});
  }
  for (auto &g : rr.groups) std::sort(g.begin(), g.end());
  sim::probe("callbacks", W.callbacks);
  return rr;
}

bool order_free(const sim::Plan &plan) {
  std::vector<long> evfd;
  long nfd = std::max(1L, std::min((long)MAXFD, plan.get("nfd", 1)));
  for (const sim::Op &op : plan.ops) if (op.kind == "ev" && evfd.size() < (size_t)MAXEV) evfd.push_back(((op.arg(0) % nfd) + nfd) % nfd);
  if (evfd.empty()) return false;
  long nev = (long)evfd.size();
  for (const sim::Op &op : plan.ops) {
    if (op.kind == "ev") continue;
    if (op.kind == "closepeer") return false;
    if (op.fmask) return false;                       // subset/EINTR faults change the pass structure of one back end only
    // operations posted from outside arrive through the loop's own wake-up descriptor: their effect depends on
    // whether that descriptor is served before or after the others in the pass, so such plans are not order-free
    if (op.arg(0) < 0 && (op.kind == "en" || op.kind == "dis" || op.kind == "del" || op.kind == "reinit" || op.kind == "ten" || op.kind == "tdis" || op.kind == "tdel")) return false;
    if (op.arg(0) >= 0 && (op.kind == "en" || op.kind == "dis" || op.kind == "del" || op.kind == "reinit")) {
      long ctx = op.arg(0) % nev, tg = ((op.arg(2) % nev) + nev) % nev;
      if (evfd[(size_t)ctx] != evfd[(size_t)tg]) return false;
      if (op.kind == "reinit" && op.arg(5, -1) >= 0) return false;        // an event that moves to another descriptor
    }
  }
  return true;
}

void execute(const sim::Plan &plan) {
  sim::start(plan);
  sim::name_thread("loop");
  sim::set_deadlock_handler([](const sim::DeadlockInfo &info) { sim::violation("C03/loop-never-wakes", "the loop blocks for ever before the end of the plan: " + info.summary); });
  sim::set_stepcap_handler([] { sim::violation("C03/livelock", "the loop spins: an event keeps firing although the scenario consumes or disables every readiness condition (step cap)"); });
  sim::set_step_cap(100000);
  long be = plan.get("backend");
  if (be == 2 && order_free(plan)) {
    RunResult e = run_once(plan, 0);
    size_t v0 = sim::violation_count();
    RunResult s = run_once(plan, 1);
    if (v0 == 0 && sim::violation_count() == 0 && e.groups != s.groups) {
      std::ostringstream os;
      os << "epoll delivered " << e.groups.size() << " non-empty passes, select " << s.groups.size() << "; first difference at pass ";
      size_t i = 0;
      while (i < e.groups.size() && i < s.groups.size() && e.groups[i] == s.groups[i]) ++i;
      os << i;
      sim::violation("C03/backends-differ", os.str());
    }
    sim::probe("backend_comparisons", 1);
  } else {
    run_once(plan, be == 1 ? 1 : 0);
  }
  sim::finish();
}

const sim::Harness H = {"C03", "c03_fdevents", generate, execute};
}  // namespace

int main(int argc, char **argv) { return sim::harness_main(argc, argv, H); }
