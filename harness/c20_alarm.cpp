// C20 — alarms: earliest matching future instant, once per instant under clock skew, never earlier than armed.
// Single-loop mode with a virtual monotonic clock AND a virtual wall clock (skew and jumps are injected faults).
#include <sim.h>
#include "loopdrv.h"

#include <tbox/event/loop.h>
#include <tbox/alarm/weekly_alarm.h>
#include <tbox/alarm/oneshot_alarm.h>
#include <tbox/alarm/workday_alarm.h>
#include <tbox/alarm/workday_calendar.h>
#include <tbox/alarm/cron_alarm.h>

#include <algorithm>
#include <map>
#include <set>
#include <string>
#include <vector>

using namespace tbox;
using namespace tbox::event;
using namespace tbox::alarm;

namespace {

const int NAL = 4;
const int64_t DAY = 86400;

// ops
//   al <kind 0 weekly,1 oneshot,2 workday,3 cron> <sod> <mask7 | workday flag | cron shape> <tz_minutes> <c1> <c2> <c3>
//   sd <day_offset> <is_workday>                      special day of the calendar (relative to the start day)
//   reinit <dt_s> <i> <sod> <a> <c1> <c2> <c3> <bad_first>   the alarm is disabled, initialised again with another configuration of its kind
//                       (a cron alarm first gets a string that is rejected half-way, if bad_first) and enabled: only the last accepted one counts
//   en|dis|refresh|remain <dt_s> <i>        skew <dt_s> <ms>        jump <dt_s> <seconds> <refresh_after>      calmask <dt_s> <mask>
void generate(sim::Rng &r, uint64_t seed, const std::string &tier, sim::Plan &p) {
  bool thorough = tier == "thorough";
  // wall-clock start: anywhere in the 32-bit epoch range that leaves room for the run, biased to day/week boundaries and 2^31
  long start;
  unsigned x = (unsigned)r.below(100);
  if (x < 25) start = (long)(r.below(24000) + 20) * DAY + r.range(-2, 2);
  else if (x < 40) start = (long)((r.below(3400) + 3) * 7 * DAY) + 3 * DAY + r.range(-2, 2);   // around a Sunday 00:00 (week boundary)
  else if (x < 50) start = 2147483648L + r.range(-3, 3) + (r.chance(500) ? 0 : r.range(-DAY, DAY));
  else start = (long)r.range(20 * DAY, 3900000000L);
  p.cfg["start_s"] = start;
  p.cfg["start_ms"] = r.chance(500) ? 0 : r.range(0, 999);
  p.cfg["backend"] = r.below(2);
  p.cfg["calmask"] = r.chance(600) ? 0x3e : (long)r.below(128);
  p.cfg["max_cb"] = 60;
  int nal = (int)r.range(1, NAL);
  bool far = r.chance(350);      // plans whose next instant is far away (> 49.7 days = 2^32 ms)
  for (int i = 0; i < nal; ++i) {
    sim::Op op; op.kind = "al";
    long kind = (long)r.below(4);
    if (far) kind = r.chance(500) ? 3 : 2;
    long sod = r.chance(300) ? r.pick((const long[]){0, 1, 86399, 43200}) : r.range(0, 86399);
    long tz = r.chance(400) ? 0 : r.pick((const long[]){-720, -480, -210, 60, 330, 480, 765, 840});
    long a = 0, c1 = 0, c2 = 0, c3 = 0;
    if (kind == 0) a = r.chance(200) ? 127 : (long)r.below(127) + 1;
    else if (kind == 2) a = r.below(2);
    else if (kind == 1) c1 = r.chance(400) ? r.range(1, 3) : 0;     // a one-shot that is enabled again from inside its own callback, c1 times
    else if (kind == 3) {
      a = far ? r.pick((const long[]){4, 5, 10}) : r.range(0, 10);   // shape
      c1 = r.range(0, 59); c2 = r.range(0, 23); c3 = r.range(1, 28);
    }
    // 8th: a repeating alarm whose callback disables its own alarm on the k-th firing (0: never)
    op.a = {kind, sod, a, tz, c1, c2, c3, (kind != 1 && r.chance(200)) ? r.range(1, 3) : 0};
    p.ops.push_back(op);
  }
  if (far || r.chance(300)) {
    // long runs of holidays (workday alarms then jump months ahead)
    int n = (int)r.range(1, 3);
    for (int k = 0; k < n; ++k) {
      long from = r.range(0, 30), len = far ? r.range(55, 300) : r.range(1, 12);
      sim::Op op; op.kind = "sdr"; op.a = {from, len, r.below(2)};
      p.ops.push_back(op);
    }
  }
  for (int i = 0; i < nal; ++i) { sim::Op op; op.kind = "en"; op.a = {r.chance(700) ? 0 : r.range(0, 3), i}; p.ops.push_back(op); }
  int n = (int)r.range(0, thorough ? 16 : 8);
  static const long dts[] = {0, 1, 1, 59, 3600, 86400, 86400 * 3, 86400 * 40};
  for (int k = 0; k < n; ++k) {
    sim::Op op;
    long dt = dts[r.below(far ? 8 : 7)];
    unsigned y = (unsigned)r.below(100);
    long i = (long)r.below((uint64_t)nal);
    if (y < 6) {
      long sod = r.chance(300) ? r.pick((const long[]){0, 1, 86399, 43200}) : r.range(0, 86399);
      op.kind = "reinit"; op.a = {dt, i, sod, r.chance(500) ? r.range(0, 10) : (long)r.below(127) + 1, r.range(0, 59), r.range(0, 23), r.range(1, 28), r.chance(400) ? 1 : 0};
    }
    else if (y < 15) { op.kind = "dis"; op.a = {dt, i}; }
    else if (y < 30) { op.kind = "en"; op.a = {dt, i}; }
    else if (y < 40) { op.kind = "refresh"; op.a = {dt, i}; }
    else if (y < 60) { op.kind = "remain"; op.a = {dt, i}; }
    else if (y < 85) { op.kind = "skew"; op.a = {dt, r.range(1, 20)}; }
    else if (y < 92) { op.kind = "calmask"; op.a = {dt, (long)r.below(128)}; }
    else { op.kind = "jump"; op.a = {dt, r.chance(500) ? r.range(-3 * DAY, 3 * DAY) : r.range(-30, 30), r.below(2)}; }
    if (r.chance(300)) { op.fseed = r.next() >> 2; op.fmask = sim::F_LATE_WAKE; }
    p.ops.push_back(op);
  }
  p.cfg["tail_days"] = far ? r.range(200, 800) : r.range(1, 20);
  p.sched.strategy = "none";
}

// ---------------------------------------------------------------------- reference next-instant computation (local seconds)
struct Spec {
  int kind = 0; long sod = 0; long arg = 0; long tz_s = 0;
  std::set<int> cs, cm, ch, cdom, cmon, cdow;   // cron sets (empty = any)
  std::string cron;
};
struct Cal { long mask = 0x3e; std::map<long, bool> special; };

bool cal_workday(const Cal &c, long day) {
  auto it = c.special.find(day);
  if (it != c.special.end()) return it->second;
  int wd = (int)(((day % 7) + 4) % 7);
  return (c.mask >> wd) & 1;
}

void civil_from_days(long z, int &y, int &m, int &d) {   // days since 1970-01-01 -> civil date
  z += 719468;
  long era = (z >= 0 ? z : z - 146096) / 146097;
  unsigned doe = (unsigned)(z - era * 146097);
  unsigned yoe = (doe - doe / 1460 + doe / 36524 - doe / 146096) / 365;
  long yy = (long)yoe + era * 400;
  unsigned doy = doe - (365 * yoe + yoe / 4 - yoe / 100);
  unsigned mp = (5 * doy + 2) / 153;
  d = (int)(doy - (153 * mp + 2) / 5 + 1);
  m = (int)(mp < 10 ? mp + 3 : mp - 9);
  y = (int)(yy + (m <= 2));
}

// earliest local instant strictly after `after` that matches; -1 if none within the search horizon
int64_t ref_next(const Spec &s, const Cal &cal, int64_t after) {
  int64_t day0 = after / DAY;
  if (s.kind == 0 || s.kind == 1 || s.kind == 2) {
    for (int i = 0; i < 400; ++i) {
      int64_t day = day0 + i;
      int64_t t = day * DAY + s.sod;
      if (t <= after) continue;
      if (s.kind == 1) return t;
      if (s.kind == 0) { int wd = (int)(((day % 7) + 4) % 7); if ((s.arg >> wd) & 1) return t; }
      if (s.kind == 2) { if (cal_workday(cal, day) == (s.arg != 0)) return t; }
    }
    return -1;
  }
  auto has = [](const std::set<int> &st, int v) { return st.empty() || st.count(v); };
  for (int i = 0; i < 366 * 5; ++i) {
    int64_t day = day0 + i;
    int y, m, d; civil_from_days(day, y, m, d);
    int wd = (int)(((day % 7) + 4) % 7);
    if (!has(s.cmon, m) || !has(s.cdom, d) || !has(s.cdow, wd)) continue;
    for (int h = 0; h < 24; ++h) {
      if (!has(s.ch, h)) continue;
      for (int mi = 0; mi < 60; ++mi) {
        if (!has(s.cm, mi)) continue;
        int64_t base = day * DAY + h * 3600 + mi * 60;
        if (base + 59 <= after) continue;
        for (int se = 0; se < 60; ++se) {
          if (!has(s.cs, se)) continue;
          if (base + se > after) return base + se;
        }
      }
    }
  }
  return -1;
}

void build_cron(Spec &s, long shape, long c1, long c2, long c3) {
  // shapes keep day-of-month and day-of-week from being restricted together (their combination is a grey zone of cron dialects)
  int sec = (int)(s.sod % 60), min = (int)(c1 % 60), hour = (int)(c2 % 24), dom = (int)std::max(1L, std::min(28L, c3)), mon = (int)(c1 % 12) + 1, dow = (int)(c2 % 7);
  char b[96];
  switch (shape) {
    case 0: snprintf(b, sizeof b, "%d %d * * * *", sec, min); s.cs = {sec}; s.cm = {min}; break;                            // hourly
    case 1: snprintf(b, sizeof b, "%d %d %d * * *", sec, min, hour); s.cs = {sec}; s.cm = {min}; s.ch = {hour}; break;      // daily
    case 2: snprintf(b, sizeof b, "%d */15 %d * * *", sec, hour); s.cs = {sec}; s.cm = {0, 15, 30, 45}; s.ch = {hour}; break;
    case 3: snprintf(b, sizeof b, "%d %d %d ? * %d", sec, min, hour, dow); s.cs = {sec}; s.cm = {min}; s.ch = {hour}; s.cdow = {dow}; break;   // weekly
    case 4: snprintf(b, sizeof b, "%d %d %d %d %d ?", sec, min, hour, dom, mon); s.cs = {sec}; s.cm = {min}; s.ch = {hour}; s.cdom = {dom}; s.cmon = {mon}; break;   // yearly
    case 10: snprintf(b, sizeof b, "%d %d %d 29 2 ?", sec, min, hour); s.cs = {sec}; s.cm = {min}; s.ch = {hour}; s.cdom = {29}; s.cmon = {2}; break;   // leap day: up to four (around 2100: eight) years away
    case 6: { int s2 = (sec + 30) % 60; snprintf(b, sizeof b, "%d,%d %d * * * *", sec, s2, min); s.cs = {sec, s2}; s.cm = {min}; break; }                         // two seconds values in one minute of every hour
    case 7: snprintf(b, sizeof b, "*/20 */30 %d * * *", hour); s.cs = {0, 20, 40}; s.cm = {0, 30}; s.ch = {hour}; break;
    case 8: { int m2 = (min + 17) % 60, h2 = (hour + 5) % 24; snprintf(b, sizeof b, "%d %d,%d %d,%d * * *", sec, min, m2, hour, h2); s.cs = {sec}; s.cm = {min, m2}; s.ch = {hour, h2}; break; }
    case 9: { int lo = sec % 50, hi = lo + 1 + (int)(c3 % 9); snprintf(b, sizeof b, "%d-%d %d * * * *", lo, hi, min); for (int v = lo; v <= hi; ++v) s.cs.insert(v); s.cm = {min}; break; }
    default: snprintf(b, sizeof b, "%d %d %d %d */3 ?", sec, min, hour, dom); s.cs = {sec}; s.cm = {min}; s.ch = {hour}; s.cdom = {dom}; s.cmon = {1, 4, 7, 10}; break;   // quarterly
  }
  s.cron = b;
}

struct AState {
  bool defined = false, init_ok = false, enabled = false;
  Spec spec;
  Alarm *alarm = nullptr;
  int64_t expect_local = -1;     // model: the local instant the alarm is armed for (-1 unknown: after a wall jump)
  int64_t arm_mono_ms = 0, arm_wall_ms = 0;
  int64_t skew_since_arm_ms = 0;
  bool uncertain = false;        // a wall-clock jump happened since arming: only the safety half is asserted
  int64_t last_fired_instant = -1;
  long callbacks = 0;
  int64_t kept_target = -1;      // one-shot: the instant served last; enable() searches from max(now, that) until disable() forgets it
  long reenable_left = 0;
  long disable_in_cb_at = 0;     // repeating alarm: its callback calls disable() on the alarm itself at this firing        // one-shot: how many more times the callback enables the alarm again
};

struct World {
  Loop *loop = nullptr;
  WorkdayCalendar cal;
  Cal mcal;
  AState a[NAL];
  long total_cb = 0, max_cb = 60;
  bool finished = false;
  long far_arms = 0;
};
World *Wp = nullptr;
#define W (*Wp)

int64_t wall_ms() { return (sim::now_ns() + sim::wall_offset_ns()) / 1000000; }
int64_t mono_ms() { return sim::now_ns() / 1000000; }

void model_arm(int i, int64_t from_local_sec) {
  AState &s = W.a[i];
  s.expect_local = ref_next(s.spec, W.mcal, from_local_sec);
  s.arm_mono_ms = mono_ms(); s.arm_wall_ms = wall_ms(); s.skew_since_arm_ms = 0; s.uncertain = false;
  // no matching instant within the search horizon (e.g. a calendar without any non-workday): the alarm cannot arm itself
  // and reports isEnabled()==false from then on; what should happen when the calendar changes again is not specified
  if (s.expect_local < 0 && s.spec.kind != 1) s.enabled = false;
  if (s.expect_local >= 0 && (s.expect_local - s.spec.tz_s) * 1000 - s.arm_wall_ms > 4294967296LL) ++W.far_arms;
}

void on_alarm(int i) {
  AState &s = W.a[i];
  ++s.callbacks; ++W.total_cb;
  int64_t wm = wall_ms(), mm = mono_ms();
  int64_t local_now_ms = wm + s.spec.tz_s * 1000;
  sim::trace("alarm %d fired wall=%ld.%03ld", i, (long)(wm / 1000), (long)(wm % 1000));
  sim::relevant();
  if (!s.enabled) { sim::violation("C20/fires-while-disabled", sim::fmt("alarm %d invoked its callback while disabled", i)); return; }
  if (!s.uncertain && s.expect_local >= 0) {
    int64_t X_ms = s.expect_local * 1000;
    // (a) never shorter than the wall-clock distance measured when it was armed
    int64_t need = (s.expect_local - s.spec.tz_s) * 1000 - s.arm_wall_ms;
    if (mm - s.arm_mono_ms < need)
      sim::violation("C20/fires-early", sim::fmt("alarm %d waited %ld ms, but the next matching instant was %ld ms away when it was armed (kind %d)", i, (long)(mm - s.arm_mono_ms), (long)need, s.spec.kind));
    // (b) the instant served is the earliest matching one: not later than it plus the injected lateness
    else if (local_now_ms > X_ms + 200 + s.skew_since_arm_ms)
      sim::violation("C20/not-earliest-instant", sim::fmt("alarm %d fired %ld s after the earliest matching instant (an instant was skipped or mis-computed)", i, (long)((local_now_ms - X_ms) / 1000)));
    if (s.expect_local == s.last_fired_instant) sim::violation("C20/fires-twice-for-one-instant", sim::fmt("alarm %d fired twice for the same instant", i));
    s.last_fired_instant = s.expect_local;
  } else {
    // after a wall-clock jump: only "not twice for one instant" — identify the instant as the matching one nearest to now
  }
  if (s.spec.kind == 1) {
    int64_t served = s.expect_local;
    s.enabled = false; s.expect_local = -1;
    if (!s.uncertain && served >= 0) s.kept_target = served;
    if (s.alarm->isEnabled()) sim::violation("C20/oneshot-still-enabled", "a one-shot alarm is still enabled inside its callback");
    else if (s.reenable_left > 0 && !s.uncertain && served >= 0) {
      // enabled again from inside the callback: the instant just served must not be served a second time, even if the
      // wall clock has not quite reached it yet (monotonic clock ahead)
      --s.reenable_left;
      if (s.alarm->enable()) { s.enabled = true; model_arm(i, std::max<int64_t>(local_now_ms / 1000, served)); sim::probe("oneshot_reenabled_in_callback"); }
    }
  }
  else {
    // re-armed before the callback from max(now, previous target)
    int64_t now_local_s = local_now_ms / 1000;
    if (s.uncertain) {
      // the wall clock jumped and nobody called refresh(): what the alarm should do next is not specified; stay silent
      s.expect_local = -1;
    } else {
      model_arm(i, std::max<int64_t>(now_local_s, s.expect_local));
    }
  }
  if (s.spec.kind != 1 && s.disable_in_cb_at > 0 && s.callbacks == s.disable_in_cb_at && s.enabled) {
    // the callback switches its own alarm off: from here on it must stay silent until somebody enables it again
    s.alarm->disable(); s.enabled = false; s.expect_local = -1; s.uncertain = false; s.kept_target = -1; s.last_fired_instant = -1;
    if (s.alarm->isEnabled()) sim::violation("C20/still-enabled-after-disable", sim::fmt("alarm %d reports isEnabled() after disable() was called from inside its own callback", i));
    sim::probe("disabled_from_own_callback");
  }
  if (W.total_cb >= W.max_cb && !W.finished) { W.finished = true; W.loop->exitLoop(); }
}

void apply(const sim::Op &op) {
  const std::string &k = op.kind;
  int i = (int)(((op.arg(1) % NAL) + NAL) % NAL);
  AState &s = W.a[i];
  if (k == "skew") {
    long ms = std::max(1L, std::min(20L, op.arg(1)));
    sim::set_wall_offset_ns(sim::wall_offset_ns() - ms * 1000000);   // the monotonic clock runs ahead of the wall clock
    for (int j = 0; j < NAL; ++j) W.a[j].skew_since_arm_ms += ms;
    sim::trace("skew %ld ms", ms);
    return;
  }
  if (k == "jump") {
    long sec = op.arg(1);
    sim::set_wall_offset_ns(sim::wall_offset_ns() + (int64_t)sec * 1000000000LL);
    sim::trace("wall jump %ld s", sec);
    for (int j = 0; j < NAL; ++j) { W.a[j].uncertain = true; W.a[j].last_fired_instant = -1; }   // after a jump the same wall instant may legitimately come round again
    if (op.arg(2)) for (int j = 0; j < NAL; ++j) if (W.a[j].enabled) { W.a[j].alarm->refresh(); int64_t now_local = wall_ms() / 1000 + W.a[j].spec.tz_s; model_arm(j, now_local); }
    return;
  }
  if (k == "calmask") {
    W.mcal.mask = op.arg(1) & 127;
    W.cal.updateWeekMask((uint8_t)W.mcal.mask);    // refreshes the subscribed (enabled) workday alarms
    // a calendar change makes every workday alarm refresh() itself: a new search from the current wall time (new arming epoch)
    for (int j = 0; j < NAL; ++j) if (W.a[j].enabled && W.a[j].spec.kind == 2) { int64_t now_local = wall_ms() / 1000 + W.a[j].spec.tz_s; W.a[j].last_fired_instant = -1; model_arm(j, now_local); }
    return;
  }
  if (!s.defined || !s.init_ok) return;
  int64_t now_local = wall_ms() / 1000 + s.spec.tz_s;
  sim::relevant();
  if (k == "reinit") {
    if (s.uncertain) return;          // after a wall-clock jump nobody has refreshed yet: leave that situation to the other ops
    if (s.enabled) { s.alarm->disable(); s.enabled = false; }
    s.expect_local = -1; s.uncertain = false; s.kept_target = -1; s.last_fired_instant = -1;
    Spec ns; ns.kind = s.spec.kind; ns.tz_s = s.spec.tz_s;
    ns.sod = std::max(0L, std::min(86399L, op.arg(2))); ns.arg = op.arg(3);
    bool ok = false;
    if (ns.kind == 0) { ns.arg &= 127; if (!ns.arg) ns.arg = 1; std::string m; for (int b = 0; b < 7; ++b) m.push_back(((ns.arg >> b) & 1) ? '1' : '0'); ok = dynamic_cast<WeeklyAlarm *>(s.alarm)->initialize((int)ns.sod, m); }
    else if (ns.kind == 1) ok = dynamic_cast<OneshotAlarm *>(s.alarm)->initialize((int)ns.sod);
    else if (ns.kind == 2) { ns.arg = (ns.arg & 1) ? 1 : 0; ok = dynamic_cast<WorkdayAlarm *>(s.alarm)->initialize((int)ns.sod, &W.cal, ns.arg != 0); }
    else {
      auto *ca = dynamic_cast<CronAlarm *>(s.alarm);
      if (op.arg(7)) { if (ca->initialize("0 15 3 * * 9")) sim::violation("C20/invalid-expression-accepted", "a cron expression with day-of-week 9 was accepted"); sim::probe("rejected_expressions"); }
      build_cron(ns, ((op.arg(3) % 11) + 11) % 11, std::max(0L, op.arg(4)), std::max(0L, op.arg(5)), op.arg(6));
      ok = ca->initialize(ns.cron);
    }
    if (!ok) { sim::violation("C20/initialize-failed", sim::fmt("initialize() rejected a valid configuration (kind %d) on an alarm that had been configured before", ns.kind)); return; }
    s.spec = ns;
    sim::probe("reinitialised_alarms");
    if (s.spec.kind != 1 && ref_next(s.spec, W.mcal, now_local) < 0) return;
    if (!s.alarm->enable()) { sim::violation("C20/enable-failed", sim::fmt("enable() of alarm %d (kind %d) failed after it was initialised again", i, s.spec.kind)); return; }
    s.enabled = true;
    model_arm(i, now_local);
    sim::trace("reinit %d expect_local=%ld", i, (long)s.expect_local);
    return;
  }
  if (k == "en") {
    if (s.enabled) {
      // enable() of an alarm that is already running: whatever it answers, the pending instant stays the one it waits for
      s.alarm->enable();
      if (!s.alarm->isEnabled()) sim::violation("C20/disabled-by-second-enable", sim::fmt("alarm %d is no longer enabled after a second enable()", i));
      sim::probe("enable_while_running");
      return;
    }
    if (s.spec.kind != 1 && ref_next(s.spec, W.mcal, now_local) < 0) return;   // nothing to wait for within the horizon: not exercised
    bool ok = s.alarm->enable();
    if (!ok) { sim::violation("C20/enable-failed", sim::fmt("enable() of alarm %d (kind %d) failed although a matching instant exists", i, s.spec.kind)); return; }
    s.enabled = true;
    // a wall-clock jump that happened while this alarm held a target leaves that target behind (a one-shot keeps it on
    // purpose, to avoid double firing under skew); what enable() does then is unspecified: stay uncertain until refresh()/disable()
    bool u = s.uncertain;
    model_arm(i, (s.spec.kind == 1 && s.kept_target >= 0) ? std::max<int64_t>(now_local, s.kept_target) : now_local);
    s.uncertain = u;
    sim::trace("enable %d expect_local=%ld uncertain=%d", i, (long)s.expect_local, (int)u);
  } else if (k == "dis") {
    if (!s.enabled) return;
    // disable() of a running alarm forgets its target: an explicit disable()/enable() (like refresh()) starts a new arming
    // from the current wall time, so "never twice for one instant" is judged per arming epoch
    s.alarm->disable(); s.enabled = false; s.expect_local = -1; s.uncertain = false; s.kept_target = -1; s.last_fired_instant = -1;
    sim::trace("disable %d", i);
  } else if (k == "refresh") {
    if (!s.enabled) {
      // refresh() of an alarm that is not running (never enabled, disabled, a one-shot that has fired) must leave it alone
      s.alarm->refresh();
      if (s.alarm->isEnabled()) sim::violation("C20/enabled-by-refresh", sim::fmt("alarm %d reports isEnabled() after refresh() although it was not running", i));
      sim::probe("refresh_while_not_running");
      return;
    }
    s.alarm->refresh();
    s.last_fired_instant = -1;      // refresh() asks for a new search from the current wall time
    model_arm(i, now_local);
    sim::trace("refresh %d", i);
  } else if (k == "remain") {
    if (!s.enabled || s.uncertain || s.expect_local < 0) return;
    uint32_t rem = s.alarm->remainSeconds();
    int64_t want = (s.expect_local - s.spec.tz_s) - wall_ms() / 1000;
    if ((int64_t)rem != want) sim::violation("C20/remain-seconds", sim::fmt("remainSeconds() = %u, the earliest matching instant is %ld s away", rem, (long)want));
  }
}

void execute(const sim::Plan &plan) {
  sim::Plan pl = plan;
  long start_s = std::max(20 * DAY, std::min(3900000000L, plan.get("start_s", 1700000000)));
  pl.cfg["wall_off_s"] = start_s - pl.get("epoch_ms", 100000000) / 1000;
  sim::start(pl);
  sim::set_wall_offset_ns(sim::wall_offset_ns() + std::max(0L, std::min(999L, plan.get("start_ms"))) * 1000000);
  sim::name_thread("loop");
  sim::fault_late_max_ms(50);
  sim::set_deadlock_handler([](const sim::DeadlockInfo &info) { sim::violation("C20/loop-never-wakes", "the loop blocks for ever before the end of the plan: " + info.summary); });
  sim::set_stepcap_handler([] { sim::violation("C20/livelock", "step cap reached"); });
  World world; Wp = &world;
  W.loop = Loop::New(plan.get("backend") ? "select" : "epoll");
  W.max_cb = std::max(1L, std::min(500L, plan.get("max_cb", 60)));
  W.mcal.mask = plan.get("calmask", 0x3e) & 127;
  W.cal.updateWeekMask((uint8_t)W.mcal.mask);
  long start_day = start_s / DAY;
  {
    std::map<int, bool> sp;
    for (const sim::Op &op : plan.ops) {
      if (op.kind == "sd") { long d = start_day + std::max(0L, std::min(400L, op.arg(0))); sp[(int)d] = op.arg(1) != 0; W.mcal.special[d] = op.arg(1) != 0; }
      if (op.kind == "sdr") for (long k = 0; k < std::max(1L, std::min(320L, op.arg(1))); ++k) { long d = start_day + std::max(0L, std::min(60L, op.arg(0))) + k; sp[(int)d] = op.arg(2) != 0; W.mcal.special[d] = op.arg(2) != 0; }
    }
    if (!sp.empty()) W.cal.updateSpecialDays(sp);
  }
  int n = 0;
  for (const sim::Op &op : plan.ops) {
    if (op.kind != "al" || n >= NAL) continue;
    AState &s = W.a[n];
    s.defined = true;
    s.spec.kind = (int)(((op.arg(0) % 4) + 4) % 4);
    s.spec.sod = std::max(0L, std::min(86399L, op.arg(1)));
    s.spec.arg = op.arg(2);
    long tz = std::max(-720L, std::min(840L, op.arg(3)));
    s.spec.tz_s = tz * 60;
    if (s.spec.kind == 1) s.reenable_left = std::max(0L, std::min(3L, op.arg(4)));
    else s.disable_in_cb_at = std::max(0L, std::min(5L, op.arg(7)));
    auto cbf = [n] { on_alarm(n); };
    if (s.spec.kind == 0) { auto *al = new WeeklyAlarm(W.loop); std::string m; s.spec.arg &= 127; if (!s.spec.arg) s.spec.arg = 1; for (int b = 0; b < 7; ++b) m.push_back(((s.spec.arg >> b) & 1) ? '1' : '0'); s.init_ok = al->initialize((int)s.spec.sod, m); s.alarm = al; }
    else if (s.spec.kind == 1) { auto *al = new OneshotAlarm(W.loop); s.init_ok = al->initialize((int)s.spec.sod); s.alarm = al; }
    else if (s.spec.kind == 2) { auto *al = new WorkdayAlarm(W.loop); s.spec.arg = s.spec.arg ? 1 : 0; s.init_ok = al->initialize((int)s.spec.sod, &W.cal, s.spec.arg != 0); s.alarm = al; }
    else { auto *al = new CronAlarm(W.loop); build_cron(s.spec, ((op.arg(2) % 11) + 11) % 11, std::max(0L, op.arg(4)), std::max(0L, op.arg(5)), op.arg(6)); s.init_ok = al->initialize(s.spec.cron); s.alarm = al; }
    if (!s.init_ok) sim::violation("C20/initialize-failed", sim::fmt("initialize() rejected a valid configuration (kind %d)", s.spec.kind));
    s.alarm->setTimezone((int)tz);
    s.alarm->setCallback(cbf);
    ++n;
  }

  static drv::Timeline tl;
  tl = drv::Timeline();
  int64_t t = sim::now_ns();
  for (size_t i = 0; i < plan.ops.size(); ++i) {
    const sim::Op *op = &plan.ops[i];
    if (op->kind == "al" || op->kind == "sd" || op->kind == "sdr") continue;
    t += std::max(0L, std::min(100L * DAY, op->arg(0))) * 1000000000LL;
    tl.at(t, [op] { sim::fault_scope(op->fseed, op->fmask); W.loop->runInLoop([op] { if (!W.finished) apply(*op); }, "c20.op"); }, (int)i);
  }
  t += std::max(1L, std::min(1200L, plan.get("tail_days", 3))) * DAY * 1000000000LL;
  tl.at(t, [] { W.loop->runInLoop([] { if (!W.finished) { W.finished = true; W.loop->exitLoop(); } }, "c20.exit"); });
  tl.install();
  W.loop->runLoop(Loop::Mode::kForever);
  sim::set_prewait_hook(nullptr);

  // liveness at the end of the run: an enabled alarm whose instant has passed (beyond the injected lateness) must have fired
  if (sim::violation_count() == 0 && W.total_cb < W.max_cb) {
    for (int i = 0; i < NAL; ++i) {
      AState &s = W.a[i];
      if (!s.enabled || s.uncertain || s.expect_local < 0) continue;
      int64_t local_now_ms = wall_ms() + s.spec.tz_s * 1000;
      if (local_now_ms > s.expect_local * 1000 + 1000 + s.skew_since_arm_ms)
        sim::violation("C20/instant-missed", sim::fmt("alarm %d did not fire although its next matching instant passed %ld s ago", i, (long)((local_now_ms - s.expect_local * 1000) / 1000)));
    }
  }
  sim::probe("alarm_callbacks", W.total_cb);
  sim::probe("armed_beyond_2^32_ms", W.far_arms);
  for (int i = 0; i < NAL; ++i) delete W.a[i].alarm;
  delete W.loop;
  sim::finish();
}

const sim::Harness H = {"C20", "c20_alarm", generate, execute};
}  // namespace

int main(int argc, char **argv) { return sim::harness_main(argc, argv, H); }
