// C05 — thread pool / work thread under the deterministic scheduler.
// Loop thread = simulated thread 0; workers are created by tbox itself.
#include <sim.h>

#include <tbox/event/loop.h>
#include <tbox/event/timer_event.h>
#include <tbox/eventx/thread_pool.h>
#include <tbox/eventx/work_thread.h>

#include <algorithm>
#include <memory>
#include <sstream>

using namespace tbox;
using namespace tbox::event;
using namespace tbox::eventx;

namespace {

enum HK { H_SUB_INV = 1, H_SUB_RET, H_BODY_START, H_BODY_END, H_CB, H_STATUS_INV, H_STATUS_RET, H_CANCEL_INV, H_CANCEL_RET,
          H_CLEANUP_INV, H_CLEANUP_RET, H_SNAPSHOT, H_INIT };
enum Cell { C_OUTSTANDING = 0, C_IN_CLEANUP = 1, C_IN_LOOP = 2, C_EPOCH = 3 };

// ------------------------------------------------------------------ generation
void generate(sim::Rng &r, uint64_t seed, const std::string &tier, sim::Plan &p) {
  bool thorough = tier == "thorough";
  long kind = r.chance(250) ? 1 : 0;            // 1 = WorkThread
  long maxn = r.range(1, 4);
  long minn = r.range(0, std::min<long>(2, maxn));
  if (r.chance(300)) maxn = 1;                  // single-worker configurations decide the priority order
  if (minn > maxn) minn = maxn;
  p.cfg["kind"] = kind;
  p.cfg["min"] = minn;
  p.cfg["max"] = maxn;
  p.cfg["backend"] = r.below(2);
  p.cfg["final_wait"] = r.chance(600) ? 1 : 0;
  p.cfg["stop_first"] = r.chance(300) ? 1 : 0;   // stop the loop while tasks may still be running; they complete while no loop runs; then run it again
  unsigned fmask = 0;
  if (r.chance(500)) fmask |= sim::F_SPURIOUS;
  if (r.chance(500)) fmask |= sim::F_COND_ANY;
  if (r.chance(400)) fmask |= sim::F_LATE_WAKE;
  if (r.chance(300)) fmask |= sim::F_WAIT_EINTR;
  if (r.chance(300)) fmask |= sim::F_STALL;
  p.cfg["fmask"] = fmask;
  p.cfg["fseed"] = (long)(r.next() >> 2);
  p.cfg["starve_max"] = maxn;
  p.cfg["pct_horizon"] = 600;

  int nops = (int)r.range(2, thorough ? 30 : 16);
  int ntasks = 0, maxtasks = thorough ? 12 : 8;
  bool cleaned = false;
  for (int i = 0; i < nops; ++i) {
    sim::Op op;
    unsigned x = (unsigned)r.below(100);
    long delay = r.chance(600) ? 0 : r.range(1, 3);
    if ((x < 50 || ntasks == 0) && ntasks < maxtasks) {
      op.kind = "exec";
      // [prio, yields, sleep_ms, has_cb, delay, nested submissions made by the body itself (from the worker thread), their prio]
      // priorities outside [-2, 2] are legal ints: the pool takes them for the nearest end of the range
      op.a = {r.chance(120) ? r.pick((const long[]){-100, -3, 3, 50}) : r.range(-2, 2), r.range(0, 3), r.chance(300) ? r.range(1, 5) : 0, r.chance(600) ? 1 : 0, delay, r.chance(250) ? r.range(1, 2) : 0, r.range(-2, 2)};
      ++ntasks;
    } else if (x < 65) { op.kind = "status"; op.a = {(long)r.below(64), delay}; }
    else if (x < 80) { op.kind = "cancel"; op.a = {(long)r.below(64), delay}; }
    else if (x < 86) { op.kind = "snapshot"; op.a = {delay}; }
    else if (x < 91) { op.kind = "waitidle"; op.a = {delay}; }
    else if (x < 95) { op.kind = "sleep"; op.a = {r.range(1, 8)}; }
    else if (!cleaned || kind == 0) {
      op.kind = "cleanup"; op.a = {delay}; cleaned = true;
      p.ops.push_back(op);
      if (kind == 0 && r.chance(700)) {
        sim::Op in; in.kind = "init";
        long mx = r.range(1, 4), mn = r.range(0, std::min<long>(2, mx));
        in.a = {mn, mx, 0};
        p.ops.push_back(in);
        cleaned = false;
      }
      continue;
    } else { op.kind = "snapshot"; op.a = {delay}; }
    p.ops.push_back(op);
  }
  sim::draw_sched(seed, p);
}

// ------------------------------------------------------------------ execution
struct TaskRec { long prio = 0; bool has_cb = false; bool accepted = false; cabinet::Token token; int epoch = 0; };

struct Ctx {
  const sim::Plan *plan = nullptr;
  Loop *loop = nullptr;
  ThreadPool *pool = nullptr;
  WorkThread *wt = nullptr;
  long kind = 0;
  long cur_max = 0;
  int epoch = 0;             // bumped by every cleanup
  std::vector<TaskRec> tasks;      // parents first (in submission order), then two child slots per parent
  int nparents_total = 0, next_parent = 0;
  std::vector<TimerEvent *> timers;
  int idle_polls = 0;
  bool stopped_once = false;
  bool alive() const { return kind == 0 ? pool != nullptr : wt != nullptr; }

  void after(long delay_ms, std::function<void()> f) {
    if (delay_ms <= 0) { loop->runNext(f, "c05.next"); return; }
    TimerEvent *t = loop->newTimerEvent("c05.delay");
    t->initialize(std::chrono::milliseconds(delay_ms), Event::Mode::kOneshot);
    t->setCallback(std::move(f));
    t->enable();
    timers.push_back(t);
  }

  void do_cleanup() {
    sim::hist(H_CLEANUP_INV, epoch);
    sim::cell_set(C_IN_CLEANUP, 1);
    if (kind == 0) pool->cleanup(); else wt->cleanup();
    sim::cell_set(C_IN_CLEANUP, 0);
    sim::hist(H_CLEANUP_RET, epoch);
    sim::cell_set(C_OUTSTANDING, 0);
    ++epoch;
    sim::cell_set(C_EPOCH, epoch);
  }

  void finale() {
    do_cleanup();
    loop->exitLoop();
  }

  void wait_idle(std::function<void()> then) {
    if (sim::cell_get(C_OUTSTANDING) <= 0) { idle_polls = 0; then(); return; }
    if (++idle_polls > 3000) {
      std::ostringstream os;
      os << "after " << idle_polls << " polls (5 ms virtual each) " << sim::cell_get(C_OUTSTANDING)
         << " accepted, uncancelled task(s) have still not finished although no cleanup was requested";
      sim::violation("C05/accepted-task-never-runs", os.str());
      then();
      return;
    }
    after(5, [this, then] { wait_idle(then); });
  }

  void step(size_t i) {
    if (i >= plan->ops.size()) {
      if (plan->get("stop_first") && !stopped_once) { stopped_once = true; loop->exitLoop(); return; }
      if (plan->get("final_wait")) wait_idle([this] { finale(); });
      else finale();
      return;
    }
    const sim::Op &op = plan->ops[i];
    long delay = 0;
    std::function<void()> next = [this, i] { step(i + 1); };
    if (op.kind == "exec") {
      delay = op.arg(4);
      int id = next_parent++;
      TaskRec tr; tr.prio = std::max(-1000L, std::min(1000L, op.arg(0))); tr.has_cb = op.arg(3) != 0; tr.epoch = epoch;
      long yields = op.arg(1), sleep_ms = op.arg(2);
      long nested = std::max(0L, std::min(2L, op.arg(5))), child_prio = std::max(-2L, std::min(2L, op.arg(6)));
      int child_base = nparents_total + 2 * id;
      ThreadPool *pl = pool; WorkThread *w = wt; long knd = kind;
      auto body = [id, yields, sleep_ms, nested, child_prio, child_base, pl, w, knd] {
        sim::hist(H_BODY_START, id);
        // submissions from the worker thread, concurrent with whatever the loop thread submits
        for (long c = 0; c < nested; ++c) {
          int cid = child_base + (int)c;
          auto child = [cid] { sim::hist(H_BODY_START, cid); sim::yield(); sim::hist(H_BODY_END, cid); sim::cell_add(C_OUTSTANDING, -1); };
          sim::hist(H_SUB_INV, cid, child_prio, 0, sim::cell_get(C_EPOCH));
          sim::cell_add(C_OUTSTANDING, 1);
          cabinet::Token t = knd == 0 ? pl->execute(child, (int)child_prio) : w->execute(child);
          if (t.isNull()) sim::cell_add(C_OUTSTANDING, -1);
          sim::hist(H_SUB_RET, cid, !t.isNull());
          sim::probe("nested_submissions");
        }
        for (long k = 0; k < yields; ++k) sim::yield();
        if (sleep_ms > 0) sim::sleep_ns(sleep_ms * 1000000);
        sim::hist(H_BODY_END, id);
        sim::cell_add(C_OUTSTANDING, -1);
      };
      auto cb = [id] { sim::hist(H_CB, id); };
      sim::hist(H_SUB_INV, id, tr.prio, tr.has_cb, epoch);
      sim::cell_add(C_OUTSTANDING, 1);     // before the call: the body may finish before execute() returns
      cabinet::Token tok;
      if (kind == 0) {
        if (tr.has_cb) tok = pool->execute(body, cb, (int)tr.prio);
        else tok = pool->execute(body, (int)tr.prio);
      } else {
        if (tr.has_cb) tok = wt->execute(body, cb);
        else tok = wt->execute(body);
      }
      tr.accepted = !tok.isNull();
      tr.token = tok;
      if (!tr.accepted) sim::cell_add(C_OUTSTANDING, -1);
      sim::hist(H_SUB_RET, id, tr.accepted);
      tasks[(size_t)id] = tr;
      sim::relevant();
    } else if (op.kind == "status" || op.kind == "cancel") {
      delay = op.arg(1);
      if (next_parent > 0) {
        int id = (int)(op.arg(0) % (long)next_parent);
        TaskRec &tr = tasks[id];
        if (tr.accepted) {
          if (op.kind == "status") {
            sim::hist(H_STATUS_INV, id);
            int st = kind == 0 ? (int)pool->getTaskStatus(tr.token) : (int)wt->getTaskStatus(tr.token);
            sim::hist(H_STATUS_RET, id, st);
          } else {
            sim::hist(H_CANCEL_INV, id);
            int rc = kind == 0 ? pool->cancel(tr.token) : wt->cancel(tr.token);
            if (rc == 0) sim::cell_add(C_OUTSTANDING, -1);
            sim::hist(H_CANCEL_RET, id, rc);
          }
          sim::relevant();
        }
      }
    } else if (op.kind == "snapshot") {
      delay = op.arg(0);
      if (kind == 0) {
        ThreadPool::Snapshot ss = pool->snapshot();
        sim::hist(H_SNAPSHOT, (long)ss.thread_num, cur_max, (long)ss.idle_thread_num, (long)ss.doing_task_num);
      }
    } else if (op.kind == "waitidle") {
      delay = op.arg(0);
      wait_idle([this, next, delay] { after(delay, next); });
      return;
    } else if (op.kind == "sleep") {
      delay = std::max(1L, op.arg(0));
    } else if (op.kind == "cleanup") {
      delay = op.arg(0);
      do_cleanup();
    } else if (op.kind == "init") {
      delay = op.arg(2);
      if (kind == 0) {
        long mx = std::max(1L, std::min(4L, op.arg(1)));
        long mn = std::max(0L, std::min(mx, op.arg(0)));
        bool ok = pool->initialize(mn, mx);
        if (ok) cur_max = mx;
        sim::hist(H_INIT, mn, mx, ok);
      }
    }
    after(delay, next);
  }
};

// ------------------------------------------------------------------ oracle
Ctx ctx;

struct TInfo {
  uint64_t sub_inv = 0, sub_ret = 0, start = 0, end = 0, cb = 0;
  int starts = 0, cbs = 0, start_tid = -1, cb_tid = -1;
  long prio = 0; bool has_cb = false, accepted = false;
  uint64_t cancel_ok = 0;       // seq of the return of the cancel that answered 0
  uint64_t cancel_ok_inv = 0;   // seq of its invocation
  int epoch = 0;
  uint64_t last_cancel_inv = 0;
};

#define S sim::fmt

void oracle(const Ctx &ctx, long kind) {
  const std::vector<sim::HEvent> &h = sim::history();
  std::vector<TInfo> T(ctx.tasks.size());
  std::vector<std::pair<uint64_t, uint64_t>> cleanups;   // (inv, ret) by epoch
  uint64_t pending_inv = 0;
  for (const sim::HEvent &e : h) {
    switch (e.kind) {
      case H_SUB_INV: if ((size_t)e.a < T.size()) { T[e.a].sub_inv = e.seq; T[e.a].prio = e.b; T[e.a].has_cb = e.c; T[e.a].epoch = (int)e.d; } break;
      case H_SUB_RET: if ((size_t)e.a < T.size()) { T[e.a].sub_ret = e.seq; T[e.a].accepted = e.b; } break;
      case H_CLEANUP_INV: pending_inv = e.seq; break;
      case H_CLEANUP_RET: cleanups.push_back({pending_inv, e.seq}); pending_inv = 0; break;
      default: break;
    }
  }
  // pass 2: events in order
  long active = 0, cur_epoch_max = kind == 1 ? 1 : std::max(1L, std::min(4L, ctx.plan->get("max", 1)));
  for (const sim::HEvent &e : h) {
    if (e.kind == H_INIT && e.c) cur_epoch_max = e.b;
    if (e.kind == H_BODY_END) --active;
    if (e.kind == H_BODY_START && ++active > cur_epoch_max)
      sim::violation("C05/threads-exceed-max", S("%ld task bodies are running at the same time, the configured maximum of workers is %ld", active, cur_epoch_max));
    if (e.kind == H_BODY_START) {
      TInfo &t = T[e.a];
      if (++t.starts > 1) sim::violation("C05/task-executed-twice", S("task body ran %d times", t.starts));
      t.start = e.seq; t.start_tid = e.tid;
      if (e.tid == 0) sim::violation("C05/task-ran-on-loop-thread", "task body executed on the loop thread");
      if (t.cancel_ok && t.cancel_ok < e.seq) sim::violation("C05/cancelled-task-runs", "cancel() returned 0 (cancelled) but the task body started afterwards");
      if ((size_t)t.epoch < cleanups.size() && cleanups[t.epoch].second && e.seq > cleanups[t.epoch].second)
        sim::violation("C05/task-runs-after-cleanup-returned", "a task body started after the cleanup() that should have dropped it had returned");
    } else if (e.kind == H_BODY_END) {
      T[e.a].end = e.seq;
    } else if (e.kind == H_CB) {
      TInfo &t = T[e.a];
      if (++t.cbs > 1) sim::violation("C05/completion-callback-twice", S("completion callback ran %d times", t.cbs));
      t.cb = e.seq; t.cb_tid = e.tid;
      if (e.tid != 0) sim::violation("C05/completion-callback-off-loop-thread", "completion callback ran on a thread that is not the loop thread");
      if (!t.end || t.end > e.seq) sim::violation("C05/completion-callback-before-body-end", "completion callback ran before the task body returned");
    } else if (e.kind == H_CANCEL_RET) {
      TInfo &t = T[e.a];
      if (e.b == 0) {
        t.cancel_ok = e.seq;
        t.cancel_ok_inv = t.last_cancel_inv;
        if (t.start) sim::violation("C05/cancel-ok-after-start", "cancel() returned 0 for a task whose body had already started");
      }
    } else if (e.kind == H_CANCEL_INV) {
      T[e.a].last_cancel_inv = e.seq;
    } else if (e.kind == H_SNAPSHOT) {
      if (e.a > e.b) sim::violation("C05/threads-exceed-max", S("snapshot reports %ld live threads, configured maximum %ld", e.a, e.b));
    }
  }
  // answers vs. history
  uint64_t last_inv = 0;
  for (const sim::HEvent &e : h) {
    if (e.kind == H_STATUS_INV || e.kind == H_CANCEL_INV) last_inv = e.seq;
    if (e.kind == H_STATUS_RET) {
      TInfo &t = T[e.a];
      bool cleaned_before = (size_t)t.epoch < cleanups.size() && cleanups[t.epoch].first && cleanups[t.epoch].first < e.seq;
      if (e.b == (long)ThreadPool::TaskStatus::kNotFound && t.start > e.seq && !t.cancel_ok && !cleaned_before)
        sim::violation("C05/status-notfound-but-runs-later", "getTaskStatus() answered kNotFound for a task whose body started afterwards");
      if (e.b == (long)ThreadPool::TaskStatus::kWaiting && t.start && t.start < last_inv)
        sim::violation("C05/status-waiting-after-start", "getTaskStatus() answered kWaiting although the task body had already started");
      if (e.b == (long)ThreadPool::TaskStatus::kNotFound && !t.start && !t.cancel_ok && !cleaned_before) {
        // not started, not cancelled, no cleanup: it is still going to run (checked below by must-run) => wrong answer
        sim::violation("C05/status-notfound-but-runs-later", "getTaskStatus() answered kNotFound for an accepted task that had not started, was not cancelled and not cleaned up");
      }
    }
    if (e.kind == H_CANCEL_RET && e.b == 1) {
      TInfo &t = T[e.a];
      bool cleaned_before = (size_t)t.epoch < cleanups.size() && cleanups[t.epoch].first && cleanups[t.epoch].first < e.seq;
      if (t.start > e.seq && !cleaned_before)
        sim::violation("C05/cancel-notfound-but-runs-later", "cancel() answered 1 (not found) for a task whose body started afterwards");
    }
  }
  // must-run and callbacks
  for (size_t i = 0; i < T.size(); ++i) {
    TInfo &t = T[i];
    if (!t.accepted) continue;
    bool cleanup_before_start = false;
    if ((size_t)t.epoch < cleanups.size()) {
      uint64_t cinv = cleanups[t.epoch].first;
      cleanup_before_start = !t.start || (cinv && cinv < t.start);
    }
    if (!t.start && !t.cancel_ok && !cleanup_before_start)
      sim::violation("C05/accepted-task-never-runs", "an accepted task was never executed although it was not cancelled and no cleanup preceded it");
    if (t.start && !t.end) sim::violation("C05/task-body-did-not-finish", "a task body started but had not returned when cleanup() returned");
    if (t.has_cb && t.end && t.cbs != 1)
      sim::violation("C05/completion-callback-missing", S("task body returned but its completion callback ran %d times by the end of the run (loop drained and destroyed)", t.cbs));
    if (t.has_cb && !t.start && t.cbs)
      sim::violation("C05/completion-callback-without-body", "completion callback ran for a task whose body never ran");
  }
  // priority / FIFO order — decided only where pick order is observable: one worker thread.
  if ((kind == 1 || ctx.plan->get("max") == 1) ) {
    // group by epoch; within an epoch with max==1 (re-init may change max: only check epochs where cur max was 1 => use plan cfg for epoch 0 only)
    std::vector<int> order;
    for (const sim::HEvent &e : h) if (e.kind == H_BODY_START && T[e.a].epoch == 0) order.push_back((int)e.a);
    uint64_t prev_end = 0;
    for (size_t k = 0; k < order.size(); ++k) {
      TInfo &x = T[order[k]];
      uint64_t bound = std::max(prev_end, x.sub_inv);
      for (size_t j = 0; j < T.size(); ++j) {
        if ((int)j == order[k]) continue;
        TInfo &y = T[j];
        if (!y.accepted || y.epoch != 0) continue;
        if (y.sub_ret == 0 || y.sub_ret >= bound) continue;           // not certainly queued when x was picked
        if (y.start && y.start < x.start) continue;                    // already picked
        if (y.cancel_ok && y.cancel_ok_inv < x.start) continue;        // a successful cancel was in progress or done when x started
        if (!cleanups.empty() && cleanups[0].first && cleanups[0].first < x.start) continue;
        // first-in-first-out is decided by the order in which the submissions took effect: with submissions from several threads
        // only a submission that had returned before the other one was invoked is certainly the earlier one
        bool y_first = y.sub_ret < x.sub_inv;
        // a priority outside [-2, 2] counts as the nearest end of the range; whether it ranks equal to or beyond that end is left open
        // (no first-in-first-out claim between an out-of-range task and a task of the level it is clamped to)
        long ey = std::max(-2L, std::min(2L, y.prio)), ex = std::max(-2L, std::min(2L, x.prio));
        bool in_range = ey == y.prio && ex == x.prio;
        if (!in_range) sim::probe("pick_order_with_out_of_range_priority");
        bool y_better = kind == 1 ? y_first : (ey < ex || (ey == ex && y_first && in_range));
        if (y_better) {
          sim::violation("C05/pick-order", S("single worker picked a task (prio %ld) while a task that must be served first (prio %ld, submitted %s) was certainly waiting",
                                             x.prio, y.prio, y.sub_inv < x.sub_inv ? "earlier" : "later"));
          k = order.size(); break;
        }
      }
      if (k < order.size()) prev_end = x.end ? x.end : prev_end;
    }
  }
}

void execute(const sim::Plan &plan) {
  sim::start(plan);
  sim::name_thread("loop");
  sim::fault_scope((uint64_t)plan.get("fseed"), (unsigned)plan.get("fmask"));
  sim::fault_late_max_ms(20);
  sim::set_deadlock_handler([](const sim::DeadlockInfo &info) {
    if (sim::cell_get(C_IN_CLEANUP)) sim::violation("C05/cleanup-never-returns", "simulator deadlock while cleanup() is joining workers: " + info.summary);
    else sim::violation("C05/deadlock", info.summary);
  });
  sim::set_stepcap_handler([] {
    if (sim::cell_get(C_IN_CLEANUP)) sim::violation("C05/cleanup-never-returns", "step cap reached while cleanup() is running");
    else sim::violation("C05/livelock", "step cap reached");
  });
  ctx = Ctx();
  ctx.plan = &plan;
  for (const sim::Op &op : plan.ops) if (op.kind == "exec") ++ctx.nparents_total;
  ctx.tasks.assign((size_t)ctx.nparents_total * 3, TaskRec());
  ctx.kind = plan.get("kind");
  ctx.loop = Loop::New(plan.get("backend") ? "select" : "epoll");
  long mx = std::max(1L, std::min(4L, plan.get("max", 1)));
  long mn = std::max(0L, std::min(mx, plan.get("min", 0)));
  if (ctx.kind == 0) {
    ctx.pool = new ThreadPool(ctx.loop);
    ctx.pool->initialize(mn, mx);
    ctx.cur_max = mx;
  } else {
    ctx.wt = new WorkThread(ctx.loop);
  }
  ctx.loop->runNext([] { ctx.step(0); }, "c05.start");
  ctx.loop->runLoop(Loop::Mode::kForever);
  if (ctx.stopped_once) {
    // no loop is running now: workers finish their tasks and post their completion callbacks meanwhile
    sim::sleep_ns(30 * 1000000);
    ctx.loop->runNext([] { ctx.step(ctx.plan->ops.size()); }, "c05.resume");
    ctx.loop->runLoop(Loop::Mode::kForever);
  }
  for (TimerEvent *t : ctx.timers) delete t;
  sim::cell_set(C_IN_CLEANUP, 1);
  delete ctx.pool; ctx.pool = nullptr;
  delete ctx.wt; ctx.wt = nullptr;
  sim::cell_set(C_IN_CLEANUP, 0);
  delete ctx.loop;
  sim::finish();
  oracle(ctx, ctx.kind);
}

const sim::Harness H = {"C05", "c05_threadpool", generate, execute};
}  // namespace

int main(int argc, char **argv) { return sim::harness_main(argc, argv, H); }
