// C04 — signal events: every enabled subscriber in every loop gets each delivery once, the previous handler is still
// called, one-shot fires at most once, and the old disposition is restored when the last subscriber goes away.
// Threads mode: 1-3 loops, each on its own simulated thread; T0 is the driver.
#include <sim.h>

#include <tbox/event/loop.h>
#include <tbox/event/signal_event.h>

#include <fcntl.h>
#include <signal.h>
#include <string.h>

#include <algorithm>
#include <set>
#include <thread>
#include <vector>

using namespace tbox::event;

namespace {

enum HK { H_CB = 1, H_SENTINEL, H_RAISE, H_ACK, H_QUIET };
enum Cell { C_ACKS = 1, C_IN_HANDLER = 2 };
const int NSG = 3, MAXEV = 6, MAXLOOP = 3;
int SIGS[NSG];

// ops: ev <loop> <sigmask 1..7> <oneshot>      en|dis|del <e>      raise <s> <via 0 driver, k>0 loop k-1>
//      pair <e1> <k1> <e2> <k2>   two subscription changes (k: 0 enable, 1 disable) posted to their loops at once, i.e. concurrently
//                                 on different threads; the driver waits for both before anything else happens
//      (any op may carry the wait-EINTR fault: the loops' epoll_wait()/select() are interrupted now and then, as by a signal that arrives during the wait)
//      addsig <e> <s> <mode>      (mode -1 keep, 0 persistent, 1 one-shot: the mode given to this initialize(), which is the one in force afterwards)
//                                 one more signal is added to event e with initialize(signo, mode) (whether or not it is enabled) and it is enabled (again)
//      badset <loop> <s>          a short-lived event with the set {SIGKILL, s} is enabled on that loop (must be refused, must change nothing) and destroyed
//      rcb <s1> <via> <e2> <s2>   like raise s1, but the first callback of that delivery enables event e2 (through its own loop) and raises s2 from inside the callback
//      flood <s> <stall_loop> <n>  loop stall_loop is kept busy (it does not serve its pipe) while signal s is raised n times in batches; the other
//                                 loops keep running: a pipe that fills up on the stalled loop must not cost the other loops a single delivery
//      craise <e> <k> <s> <via>   a subscription change of event e (which is not subscribed to signal s) is posted to its loop and, without
//                                 waiting for it, signal s is raised from another thread: the delivery overlaps the change
void generate(sim::Rng &r, uint64_t seed, const std::string &tier, sim::Plan &p) {
  bool thorough = tier == "thorough";
  long nl = r.range(1, MAXLOOP);
  p.cfg["nloops"] = nl;
  p.cfg["backend"] = r.below(2);
  for (int s = 0; s < NSG; ++s) p.cfg["base" + std::to_string(s)] = r.range(0, 3);   // 0 handler, 1 siginfo handler, 2 SIG_IGN, 3 SIG_DFL
  for (int s = 0; s < NSG; ++s) p.cfg["bflag" + std::to_string(s)] = r.chance(500) ? 0 : r.range(1, 5);   // flags of a baseline handler: none, RESTART, RESETHAND, NODEFER, RESETHAND|NODEFER, RESTART|RESETHAND
  p.cfg["starve_max"] = nl;
  p.cfg["pct_horizon"] = 400;
  long nev = r.range(1, MAXEV);
  std::vector<long> masks;
  for (long e = 0; e < nev; ++e) { sim::Op op; op.kind = "ev"; op.a = {(long)r.below((uint64_t)nl), r.chance(650) ? (1L << r.below(3)) : r.range(1, 7), r.chance(250) ? 1 : 0}; masks.push_back(op.a[1]); p.ops.push_back(op); }
  int n = (int)r.range(2, thorough ? 40 : 18);
  for (int i = 0; i < n; ++i) {
    sim::Op op;
    unsigned x = (unsigned)r.below(100);
    if (x < 30) { op.kind = "en"; op.a = {(long)r.below((uint64_t)nev)}; }
    else if (x < 45) { op.kind = "dis"; op.a = {(long)r.below((uint64_t)nev)}; }
    else if (x < 52) { op.kind = "del"; op.a = {(long)r.below((uint64_t)nev)}; }
    else if (x < 55) { op.kind = "addsig"; op.a = {(long)r.below((uint64_t)nev), (long)r.below(NSG), r.chance(500) ? -1 : (long)r.below(2)}; }
    else if (x < 62) {
      // e2 and one of its signals; the first delivery is of a signal e2 is not subscribed to
      long e2 = (long)r.below((uint64_t)nev), s2 = (long)r.below(NSG), s1 = (long)r.below(NSG);
      for (int k = 0; k < 3 && !(masks[(size_t)e2] & (1L << s2)); ++k) s2 = (s2 + 1) % NSG;
      for (int k = 0; k < 3 && ((masks[(size_t)e2] & (1L << s1)) || s1 == s2); ++k) s1 = (s1 + 1) % NSG;
      op.kind = "rcb"; op.a = {s1, (long)r.below((uint64_t)nl + 1), e2, s2};
    }
    else if (x < 63 && nl > 1 && r.chance(400)) { op.kind = "flood"; op.a = {(long)r.below(NSG), (long)r.below((uint64_t)nl), r.range(1100, 1400)}; }
    else if (x < 66) { op.kind = "craise"; op.a = {(long)r.below((uint64_t)nev), (long)r.below(2), (long)r.below(NSG), (long)r.below((uint64_t)nl + 1)}; }
    else if (x < 77 && nl > 1) { op.kind = "pair"; op.a = {(long)r.below((uint64_t)nev), (long)r.below(2), (long)r.below((uint64_t)nev), (long)r.below(2)}; }
    else if (x < 80) { op.kind = "badset"; op.a = {(long)r.below((uint64_t)nl), (long)r.below(NSG)}; }
    else { op.kind = "raise"; op.a = {(long)r.below(NSG), (long)r.below((uint64_t)nl + 1)}; }
    if (r.chance(250)) { op.fseed = r.next() >> 2; op.fmask = sim::F_WAIT_EINTR; }
    p.ops.push_back(op);
  }
  if (r.chance(150)) p.cfg["rearm"] = 1;      // drawn last: older seeds keep their plans
  sim::draw_sched(seed, p);
}

// cfg rearm: the callback of every one-shot event enables the event again (a one-shot that re-arms itself): it stays subscribed; the ops
// that overlap deliveries with subscription changes (pair, rcb, flood, craise) are left out of such plans, a re-arming one-shot is
// unsubscribed for a moment inside every delivery
bool g_rearm = false;
struct Ev { SignalEvent *ev = nullptr; int loop = 0; int mask = 0; bool oneshot = false, enabled = false, exists = false; };
struct CbAct { bool armed = false; int e2 = -1; int signo2 = 0; };
struct World {
  int nl = 0;
  CbAct act;
  Loop *loops[MAXLOOP];
  int loop_tid[MAXLOOP];
  Ev ev[MAXEV]; int nev = 0;
  struct sigaction before[NSG];
  long base[NSG];
  bool resethand[NSG];
};
World W;

void sentinel_handler(int signo) { sim::NoSched ns; sim::hist(H_SENTINEL, signo, 0); }
void sentinel_siginfo(int signo, siginfo_t *, void *) { sim::NoSched ns; sim::hist(H_SENTINEL, signo, 1); }

bool same_disposition(const struct sigaction &a, const struct sigaction &b) {
  if ((a.sa_flags & SA_SIGINFO) != (b.sa_flags & SA_SIGINFO)) return false;
  if (a.sa_flags & SA_SIGINFO) { if (a.sa_sigaction != b.sa_sigaction) return false; }
  else if (a.sa_handler != b.sa_handler) return false;
  int mask_flags = ~(0x04000000);   // SA_RESTORER is added by libc
  if ((a.sa_flags & mask_flags) != (b.sa_flags & mask_flags)) return false;
  for (int s = 1; s < 65; ++s) if (sigismember(&a.sa_mask, s) != sigismember(&b.sa_mask, s)) return false;
  return true;
}

bool any_subscriber(int sidx) {
  for (int e = 0; e < W.nev; ++e) if (W.ev[e].exists && W.ev[e].enabled && (W.ev[e].mask & (1 << sidx))) return true;
  return false;
}

void check_dispositions(const char *when) {
  for (int s = 0; s < NSG; ++s) {
    struct sigaction cur;
    sigaction(SIGS[s], nullptr, &cur);
    if (any_subscriber(s)) {
      // while somebody is subscribed the process must have a handler for the signal, whatever flags the previous handler had
      if (!(cur.sa_flags & SA_SIGINFO) && (cur.sa_handler == SIG_DFL || cur.sa_handler == SIG_IGN))
        sim::violation("C04/handler-lost-while-subscribed", sim::fmt("%s: signal #%d has an enabled subscriber but the process disposition is %s", when, s, cur.sa_handler == SIG_DFL ? "SIG_DFL" : "SIG_IGN"));
      continue;
    }
    if (!same_disposition(cur, W.before[s]))
      sim::violation("C04/disposition-not-restored", sim::fmt("%s: no enabled subscriber is left for signal #%d, but its disposition differs from what was installed before the first subscription (baseline kind %ld)", when, s, W.base[s]));
  }
}

// post a closure to a loop and wait (in virtual time) until it has run
void on_loop(int l, std::function<void()> f) {
  long want = sim::cell_get(C_ACKS) + 1;
  W.loops[l]->runInLoop([f] { f(); sim::cell_add(C_ACKS, 1); }, "c04.op");
  for (int i = 0; i < 100000 && sim::cell_get(C_ACKS) < want; ++i) sim::sleep_ns(1000000);
  if (sim::cell_get(C_ACKS) < want) sim::violation("C04/posted-operation-never-ran", "an operation posted to a loop thread did not run within 100 s of virtual time");
}

// the action armed by an rcb op, performed once, inside the first callback of the delivery
void on_callback_action(int carrier) {
  if (!W.act.armed) return;
  W.act.armed = false;
  int e2 = W.act.e2;
  if (W.ev[e2].loop == W.ev[carrier].loop) { if (!W.ev[e2].ev->enable()) sim::violation("C04/enable-failed", "enable() of a signal event failed"); }
  else on_loop(W.ev[e2].loop, [e2] { if (!W.ev[e2].ev->enable()) sim::violation("C04/enable-failed", "enable() of a signal event failed"); });
  sim::trace("callback of event %d enabled event %d and raises signal %d", carrier, e2, W.act.signo2);
  { sim::NoSched ns; raise(W.act.signo2); }
}

void execute(const sim::Plan &plan) {
  SIGS[0] = SIGUSR1; SIGS[1] = SIGUSR2; SIGS[2] = SIGRTMIN + 1;
  sim::start(plan);
  sim::name_thread("driver");
  sim::set_deadlock_handler([](const sim::DeadlockInfo &info) { sim::violation("C04/deadlock", info.summary); });
  sim::set_stepcap_handler([] { sim::violation("C04/livelock", "step cap reached"); });
  W = World();
  g_rearm = plan.get("rearm") != 0;
  W.nl = (int)std::max(1L, std::min((long)MAXLOOP, plan.get("nloops", 1)));
  // baseline dispositions
  for (int s = 0; s < NSG; ++s) {
    struct sigaction sa; memset(&sa, 0, sizeof sa); sigemptyset(&sa.sa_mask);
    W.base[s] = ((plan.get(("base" + std::to_string(s)).c_str(), 0) % 4) + 4) % 4;
    if (W.base[s] == 0) sa.sa_handler = sentinel_handler;
    else if (W.base[s] == 1) { sa.sa_sigaction = sentinel_siginfo; sa.sa_flags = SA_SIGINFO; }
    else if (W.base[s] == 2) sa.sa_handler = SIG_IGN;
    else sa.sa_handler = SIG_DFL;
    if (W.base[s] <= 1 && s == 1) { sa.sa_flags |= SA_RESTART; sigaddset(&sa.sa_mask, SIGHUP); }   // some variety in flags and mask
    W.resethand[s] = false;
    if (W.base[s] <= 1) {
      static const int BF[] = {0, SA_RESTART, (int)SA_RESETHAND, SA_NODEFER, (int)SA_RESETHAND | SA_NODEFER, SA_RESTART | (int)SA_RESETHAND};
      int f = BF[((plan.get(("bflag" + std::to_string(s)).c_str(), 0) % 6) + 6) % 6];
      sa.sa_flags |= f;
      W.resethand[s] = (f & (int)SA_RESETHAND) != 0;
    }
    sigaction(SIGS[s], &sa, nullptr);
    sigaction(SIGS[s], nullptr, &W.before[s]);
  }
  for (int l = 0; l < W.nl; ++l) W.loops[l] = Loop::New(plan.get("backend") ? "select" : "epoll");
  for (const sim::Op &op : plan.ops) {
    if (op.kind != "ev" || W.nev >= MAXEV) continue;
    Ev &e = W.ev[W.nev];
    e.loop = (int)(((op.arg(0) % W.nl) + W.nl) % W.nl);
    e.mask = (int)std::max(1L, std::min(7L, op.arg(1)));
    e.oneshot = op.arg(2) != 0;
    e.ev = W.loops[e.loop]->newSignalEvent("c04");
    std::set<int> ss;
    for (int s = 0; s < NSG; ++s) if (e.mask & (1 << s)) ss.insert(SIGS[s]);
    e.ev->initialize(ss, e.oneshot ? Event::Mode::kOneshot : Event::Mode::kPersist);
    int idx = W.nev;
    e.ev->setCallback([idx](int signo) {
      sim::hist(H_CB, idx, signo);
      on_callback_action(idx);
      if (g_rearm && W.ev[idx].oneshot) { sim::probe("oneshot_rearmed_in_callback"); if (!W.ev[idx].ev->enable()) sim::violation("C04/enable-failed", "enable() of a one-shot signal event inside its own callback failed"); }
    });
    e.exists = true;
    ++W.nev;
  }
  std::vector<std::thread> th;
  for (int l = 0; l < W.nl; ++l) th.emplace_back([l] { sim::cell_set(10 + l, sim::self()); W.loops[l]->runLoop(Loop::Mode::kForever); });
  sim::sleep_ns(1000000);
  for (int l = 0; l < W.nl; ++l) W.loop_tid[l] = (int)sim::cell_get(10 + l);

  for (const sim::Op &op : plan.ops) {
    if (sim::violation_count()) break;
    if (op.kind == "ev") continue;
    sim::fault_scope(op.fseed, op.fmask);
    if (g_rearm && (op.kind == "pair" || op.kind == "rcb" || op.kind == "flood" || op.kind == "craise")) continue;
    if (op.kind == "badset") {
      // a short-lived event on loop l is given the set {SIGKILL, s} and enabled: SIGKILL cannot be caught, enable() must refuse, and the
      // attempt must leave signal s as it was (its subscribers subscribed, or its disposition untouched)
      int l = (int)(((op.arg(0) % W.nl) + W.nl) % W.nl), sidx = (int)(((op.arg(1) % NSG) + NSG) % NSG);
      int signo = SIGS[sidx];
      sim::relevant();
      sim::probe("enable_with_uncatchable_signal");
      on_loop(l, [l, signo] {
        SignalEvent *tmp = W.loops[l]->newSignalEvent("c04.bad");
        std::set<int> ss; ss.insert(SIGKILL); ss.insert(signo);
        tmp->initialize(ss, Event::Mode::kPersist);
        tmp->setCallback([](int) { sim::violation("C04/callback-on-unsubscribed-event", "the callback of an event whose enable() was refused ran"); });
        if (tmp->enable()) sim::violation("C04/enable-accepted-uncatchable-signal", "enable() of an event subscribed to SIGKILL reported success");
        if (tmp->isEnabled()) sim::violation("C04/enable-accepted-uncatchable-signal", "an event whose enable() was refused reports that it is enabled");
        delete tmp;
      });
      check_dispositions("after a refused enable()");
      continue;
    }
    if (op.kind == "en" || op.kind == "dis" || op.kind == "del") {
      if (W.nev == 0) continue;
      int e = (int)(((op.arg(0) % W.nev) + W.nev) % W.nev);
      Ev &E = W.ev[e];
      if (!E.exists) continue;
      sim::relevant();
      if (op.kind == "en") { on_loop(E.loop, [e] { if (!W.ev[e].ev->enable()) sim::violation("C04/enable-failed", "enable() of a signal event failed"); }); E.enabled = true; }
      else if (op.kind == "dis") { on_loop(E.loop, [e] { W.ev[e].ev->disable(); }); E.enabled = false; }
      else { on_loop(E.loop, [e] { delete W.ev[e].ev; W.ev[e].ev = nullptr; }); E.enabled = false; E.exists = false; }
      check_dispositions(op.kind.c_str());
    } else if (op.kind == "addsig") {
      if (W.nev == 0) continue;
      int e = (int)(((op.arg(0) % W.nev) + W.nev) % W.nev);
      int sidx = (int)(((op.arg(1) % NSG) + NSG) % NSG);
      Ev &E = W.ev[e];
      if (!E.exists) continue;
      sim::relevant();
      if (op.arg(2, -1) >= 0) E.oneshot = op.arg(2) != 0;
      int signo = SIGS[sidx]; bool oneshot = E.oneshot;
      on_loop(E.loop, [e, signo, oneshot] { W.ev[e].ev->initialize(signo, oneshot ? Event::Mode::kOneshot : Event::Mode::kPersist); if (!W.ev[e].ev->enable()) sim::violation("C04/enable-failed", "enable() of a signal event failed"); });
      E.mask |= (1 << sidx); E.enabled = true;
      sim::probe("signals_added_to_live_events");
      check_dispositions("addsig");
    } else if (op.kind == "pair") {
      if (W.nev < 2) continue;
      int e1 = (int)(((op.arg(0) % W.nev) + W.nev) % W.nev), e2 = (int)(((op.arg(2) % W.nev) + W.nev) % W.nev);
      if (e1 == e2 || !W.ev[e1].exists || !W.ev[e2].exists || W.ev[e1].loop == W.ev[e2].loop) continue;
      bool en1 = op.arg(1) == 0, en2 = op.arg(3) == 0;
      sim::relevant();
      long want = sim::cell_get(C_ACKS) + 2;
      W.loops[W.ev[e1].loop]->runInLoop([e1, en1] { if (en1) W.ev[e1].ev->enable(); else W.ev[e1].ev->disable(); sim::cell_add(C_ACKS, 1); }, "c04.pair1");
      W.loops[W.ev[e2].loop]->runInLoop([e2, en2] { if (en2) W.ev[e2].ev->enable(); else W.ev[e2].ev->disable(); sim::cell_add(C_ACKS, 1); }, "c04.pair2");
      for (int i = 0; i < 100000 && sim::cell_get(C_ACKS) < want; ++i) sim::sleep_ns(1000000);
      if (sim::cell_get(C_ACKS) < want) sim::violation("C04/posted-operation-never-ran", "concurrent subscription changes did not complete within 100 s of virtual time");
      W.ev[e1].enabled = en1; W.ev[e2].enabled = en2;
      check_dispositions("concurrent subscription changes on two loops");
    } else if (op.kind == "flood") {
      if (W.nl < 2) continue;
      int s1 = (int)(((op.arg(0) % NSG) + NSG) % NSG), stall = (int)(((op.arg(1) % W.nl) + W.nl) % W.nl);
      long n = std::max(10L, std::min(2000L, op.arg(2)));
      std::vector<int> others;
      bool stall_has = false;
      for (int e = 0; e < W.nev; ++e) if (W.ev[e].exists && W.ev[e].enabled && (W.ev[e].mask & (1 << s1))) { if (W.ev[e].loop == stall) stall_has = true; else others.push_back(e); }
      if (others.empty() || !stall_has) continue;          // somebody must be watching on a running loop, and the stalled loop must be a subscriber too
      // small pipes, so that a little more than a thousand unserved deliveries fill one (every pipe of the process: harmless)
      for (int fd = 3; fd < 256; ++fd) if (fcntl(fd, F_GETPIPE_SZ) > 0) fcntl(fd, F_SETPIPE_SZ, 4096);
      uint64_t mark = sim::hist(H_RAISE, s1, (long)others.size());
      sim::relevant();
      sim::probe("floods");
      int signo = SIGS[s1];
      long want = sim::cell_get(C_ACKS) + 1;
      W.loops[stall]->runInLoop([] { sim::sleep_ns(400 * 1000000LL); sim::cell_add(C_ACKS, 1); }, "c04.stall");
      sim::sleep_ns(2 * 1000000);                 // the stalled loop is inside its long task now
      for (long done = 0; done < n; ) {
        long batch = std::min(200L, n - done);
        { sim::NoSched ns; for (long k = 0; k < batch; ++k) raise(signo); }
        done += batch;
        sim::sleep_ns(1000000);                   // the running loops drain their pipes
      }
      for (int i = 0; i < 100000 && sim::cell_get(C_ACKS) < want; ++i) sim::sleep_ns(1000000);
      sim::sleep_ns(8 * 1000000);
      sim::hist(H_QUIET, s1);
      std::vector<long> c((size_t)W.nev, 0); long sentinel = 0;
      for (const sim::HEvent &h : sim::history()) {
        if (h.seq <= mark) continue;
        if (h.kind == H_CB) { if (h.b != signo) { sim::violation("C04/callback-for-other-signal", "a callback reported a signal that was not raised"); continue; } if (h.a >= 0 && h.a < W.nev) ++c[(size_t)h.a]; }
        else if (h.kind == H_SENTINEL && h.a == signo) ++sentinel;
      }
      for (int e = 0; e < W.nev; ++e) {
        bool sub = W.ev[e].exists && W.ev[e].enabled && (W.ev[e].mask & (1 << s1));
        long wantc = !sub ? 0 : W.ev[e].oneshot ? 1 : n;
        if (!sub && c[(size_t)e] != 0) sim::violation("C04/callback-on-unsubscribed-event", sim::fmt("event %d is disabled, destroyed or not subscribed to signal #%d but its callback ran", e, s1));
        else if (sub && W.ev[e].loop != stall && c[(size_t)e] != wantc)
          sim::violation(c[(size_t)e] < wantc ? "C04/subscriber-missed-delivery" : "C04/subscriber-called-twice", sim::fmt("%ld deliveries of signal #%d while loop %d was not serving its pipe produced %ld callbacks on enabled event %d of loop %d, which kept running", n, s1, stall, c[(size_t)e], e, W.ev[e].loop));
        else if (sub && W.ev[e].loop == stall && c[(size_t)e] > wantc) sim::violation("C04/subscriber-called-twice", sim::fmt("%ld deliveries produced %ld callbacks on event %d", n, c[(size_t)e], e));
      }
      if (W.base[s1] <= 1 && sentinel != n) sim::violation("C04/previous-handler-not-chained", sim::fmt("the handler installed before the first subscription was invoked %ld times for %ld deliveries", sentinel, n));
      for (int e = 0; e < W.nev; ++e) if (W.ev[e].exists && W.ev[e].enabled && (W.ev[e].mask & (1 << s1)) && W.ev[e].oneshot) { W.ev[e].enabled = false; }
      check_dispositions("after a flood of deliveries");
    } else if (op.kind == "rcb") {
      if (W.nev == 0) continue;
      int s1 = (int)(((op.arg(0) % NSG) + NSG) % NSG), s2 = (int)(((op.arg(3) % NSG) + NSG) % NSG);
      int e2 = (int)(((op.arg(2) % W.nev) + W.nev) % W.nev);
      if (s1 == s2 || !W.ev[e2].exists || !(W.ev[e2].mask & (1 << s2)) || (W.ev[e2].mask & (1 << s1))) continue;
      std::vector<int> expect1, expect2;
      bool overlap = false;
      for (int e = 0; e < W.nev; ++e) {
        if (!W.ev[e].exists) continue;
        if (W.ev[e].enabled && (W.ev[e].mask & (1 << s1))) { expect1.push_back(e); if (W.ev[e].mask & (1 << s2)) overlap = true; }
        if ((W.ev[e].enabled || e == e2) && (W.ev[e].mask & (1 << s2))) expect2.push_back(e);
      }
      if (expect1.empty() || overlap) continue;    // somebody must get the first delivery; nobody may be subscribed to both (order inside one dispatch is free)
      uint64_t mark = sim::hist(H_RAISE, s1, (long)expect1.size());
      sim::relevant();
      sim::probe("raises_from_inside_a_callback");
      int via = (int)(((op.arg(1) % (W.nl + 1)) + W.nl + 1) % (W.nl + 1));
      int signo1 = SIGS[s1], signo2 = SIGS[s2];
      W.act.armed = true; W.act.e2 = e2; W.act.signo2 = signo2;
      if (via == 0) { sim::NoSched ns; raise(signo1); }
      else on_loop(via - 1, [signo1] { sim::NoSched ns; raise(signo1); });
      for (int i = 0; i < 200 && W.act.armed; ++i) sim::sleep_ns(1000000);
      sim::sleep_ns(8 * 1000000);                 // quiescence: every loop has served its pipe, twice
      sim::hist(H_QUIET, s1);
      bool ran = !W.act.armed; W.act.armed = false;
      std::vector<int> c1((size_t)W.nev, 0), c2((size_t)W.nev, 0); int sent1 = 0, sent2 = 0;
      for (const sim::HEvent &h : sim::history()) {
        if (h.seq <= mark) continue;
        if (h.kind == H_CB) {
          if (h.a < 0 || h.a >= W.nev) continue;
          if (h.b == signo1) ++c1[(size_t)h.a]; else if (h.b == signo2) ++c2[(size_t)h.a];
          else sim::violation("C04/callback-for-other-signal", "a callback reported a signal that was not raised");
          if (h.tid != W.loop_tid[W.ev[h.a].loop]) sim::violation("C04/callback-on-wrong-thread", sim::fmt("callback of event %ld ran on T%d, its loop runs on T%d", h.a, h.tid, W.loop_tid[W.ev[h.a].loop]));
        } else if (h.kind == H_SENTINEL) { if (h.a == signo1) ++sent1; else if (h.a == signo2) ++sent2; }
      }
      if (ran) W.ev[e2].enabled = true; else expect2.clear();
      for (int e = 0; e < W.nev; ++e) {
        bool x1 = std::find(expect1.begin(), expect1.end(), e) != expect1.end(), x2 = std::find(expect2.begin(), expect2.end(), e) != expect2.end();
        if (x1 && c1[(size_t)e] != 1) sim::violation(c1[(size_t)e] == 0 ? "C04/subscriber-missed-delivery" : "C04/subscriber-called-twice", sim::fmt("one delivery of signal #%d produced %d callbacks on enabled event %d", s1, c1[(size_t)e], e));
        if (!x1 && c1[(size_t)e] != 0) sim::violation("C04/callback-on-unsubscribed-event", sim::fmt("event %d is disabled, destroyed or not subscribed to signal #%d but its callback ran", e, s1));
        if (x2 && c2[(size_t)e] != 1) sim::violation(c2[(size_t)e] == 0 ? "C04/subscriber-missed-delivery" : "C04/subscriber-called-twice", sim::fmt("signal #%d raised from inside a callback (after event %d had been enabled) produced %d callbacks on enabled event %d (loop %d)", s2, e2, c2[(size_t)e], e, W.ev[e].loop));
        if (!x2 && c2[(size_t)e] != 0) sim::violation("C04/callback-on-unsubscribed-event", sim::fmt("event %d is disabled, destroyed or not subscribed to signal #%d but its callback ran", e, s2));
      }
      if (W.base[s1] <= 1 && sent1 != 1) sim::violation("C04/previous-handler-not-chained", sim::fmt("the handler installed before the first subscription was invoked %d times for one delivery", sent1));
      if (ran && W.base[s2] <= 1 && sent2 != 1) sim::violation("C04/previous-handler-not-chained", sim::fmt("the handler installed before the first subscription was invoked %d times for the delivery raised from inside a callback", sent2));
      for (int e : expect1) if (W.ev[e].oneshot) { W.ev[e].enabled = false; if (W.ev[e].ev->isEnabled()) sim::violation("C04/oneshot-still-enabled", "a one-shot signal event is still enabled after it fired"); }
      for (int e : expect2) if (W.ev[e].oneshot) { W.ev[e].enabled = false; if (W.ev[e].ev->isEnabled()) sim::violation("C04/oneshot-still-enabled", "a one-shot signal event is still enabled after it fired"); }
      check_dispositions("after a delivery raised from inside a callback");
    } else if (op.kind == "raise" || op.kind == "craise") {
      bool conc = op.kind == "craise";
      int s = (int)(((op.arg(conc ? 2 : 0) % NSG) + NSG) % NSG);
      int ce = -1; bool cen = false;
      if (conc) {
        if (W.nev == 0) continue;
        ce = (int)(((op.arg(0) % W.nev) + W.nev) % W.nev); cen = op.arg(1) == 0;
        if (!W.ev[ce].exists || (W.ev[ce].mask & (1 << s))) continue;     // the raised signal's own subscriptions stay stable
      }
      bool subs = any_subscriber(s);
      if (W.base[s] == 3 && !subs) continue;      // default disposition and nobody subscribed: the signal would terminate the process
      if (W.resethand[s] && !subs) continue;      // the baseline handler resets itself on its first own delivery: not tbox's doing, keep it out of the picture
      std::vector<int> expect;
      for (int e = 0; e < W.nev; ++e) if (W.ev[e].exists && W.ev[e].enabled && (W.ev[e].mask & (1 << s))) expect.push_back(e);
      uint64_t mark = sim::hist(H_RAISE, s, (long)expect.size());
      sim::relevant();
      int via = (int)(((op.arg(conc ? 3 : 1) % (W.nl + 1)) + W.nl + 1) % (W.nl + 1));
      int signo = SIGS[s];
      long want_acks = -1;
      if (conc) {
        if (via - 1 == W.ev[ce].loop) via = 0;    // the delivery comes from a thread other than the one changing the subscription
        want_acks = sim::cell_get(C_ACKS) + 1;
        W.loops[W.ev[ce].loop]->runInLoop([ce, cen] { if (cen) W.ev[ce].ev->enable(); else W.ev[ce].ev->disable(); sim::cell_add(C_ACKS, 1); }, "c04.craise");
        sim::probe("concurrent_raises");
      }
      if (via == 0) { sim::NoSched ns; raise(signo); }
      else on_loop(via - 1, [signo] { sim::NoSched ns; raise(signo); });
      if (conc) {
        for (int i = 0; i < 100000 && sim::cell_get(C_ACKS) < want_acks + (via == 0 ? 0 : 1); ++i) sim::sleep_ns(1000000);
        if (sim::cell_get(C_ACKS) < want_acks + (via == 0 ? 0 : 1)) sim::violation("C04/posted-operation-never-ran", "a subscription change posted together with a delivery did not complete within 100 s of virtual time");
        W.ev[ce].enabled = cen;
      }
      sim::sleep_ns(5 * 1000000);                 // quiescence: every loop has served its pipe
      sim::hist(H_QUIET, s);
      // census
      std::vector<int> count((size_t)W.nev, 0); int sentinel = 0;
      for (const sim::HEvent &h : sim::history()) {
        if (h.seq <= mark) continue;
        if (h.kind == H_CB) {
          if (h.b != signo) { sim::violation("C04/callback-for-other-signal", "a callback reported a signal that was not raised"); continue; }
          if (h.a >= 0 && h.a < W.nev) { ++count[(size_t)h.a]; if (h.tid != W.loop_tid[W.ev[h.a].loop]) sim::violation("C04/callback-on-wrong-thread", sim::fmt("callback of event %ld ran on T%d, its loop runs on T%d", h.a, h.tid, W.loop_tid[W.ev[h.a].loop])); }
        } else if (h.kind == H_SENTINEL && h.a == signo) ++sentinel;
      }
      for (int e = 0; e < W.nev; ++e) {
        bool exp = std::find(expect.begin(), expect.end(), e) != expect.end();
        if (exp && count[(size_t)e] != 1) sim::violation(count[(size_t)e] == 0 ? "C04/subscriber-missed-delivery" : "C04/subscriber-called-twice", sim::fmt("one delivery of signal #%d produced %d callbacks on enabled event %d (loop %d, %s)", s, count[(size_t)e], e, W.ev[e].loop, W.ev[e].oneshot ? "one-shot" : "persistent"));
        if (!exp && count[(size_t)e] != 0) sim::violation("C04/callback-on-unsubscribed-event", sim::fmt("event %d is disabled, destroyed or not subscribed to signal #%d but its callback ran", e, s));
      }
      if (W.base[s] <= 1 && sentinel != 1) sim::violation("C04/previous-handler-not-chained", sim::fmt("the handler installed before the first subscription was invoked %d times for one delivery", sentinel));
      if (W.base[s] >= 2 && sentinel != 0) sim::violation("C04/previous-handler-not-chained", "a sentinel ran although none was installed");
      for (int e : expect) if (W.ev[e].oneshot) {
        if (g_rearm) { if (!W.ev[e].ev->isEnabled()) sim::violation("C04/rearmed-oneshot-not-enabled", "a one-shot signal event whose callback enabled it again is not enabled after the delivery"); continue; }
        W.ev[e].enabled = false; if (W.ev[e].ev->isEnabled()) sim::violation("C04/oneshot-still-enabled", "a one-shot signal event is still enabled after it fired");
      }
      check_dispositions("after a one-shot delivery");
    }
  }
  sim::fault_scope(0, 0);
  // tear down: disable everything through the owning loops, stop the loops
  for (int e = 0; e < W.nev; ++e) if (W.ev[e].exists) { on_loop(W.ev[e].loop, [e] { delete W.ev[e].ev; W.ev[e].ev = nullptr; }); W.ev[e].exists = false; W.ev[e].enabled = false; }
  if (sim::violation_count() == 0) check_dispositions("after destroying every event");
  for (int l = 0; l < W.nl; ++l) { Loop *lp = W.loops[l]; lp->runInLoop([lp] { lp->exitLoop(); }, "c04.exit"); }
  for (auto &t : th) t.join();
  for (int l = 0; l < W.nl; ++l) delete W.loops[l];
  sim::finish();
}

const sim::Harness H = {"C04", "c04_signals", generate, execute};
}  // namespace

int main(int argc, char **argv) { return sim::harness_main(argc, argv, H); }
