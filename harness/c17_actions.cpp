// C17 — action trees: the root finishes once with the documented result, children start in the documented order,
// pause/resume/stop/reset keep the tree consistent, nothing is left running, a reset tree behaves like a fresh one.
// Single-loop mode (virtual time for leaf delays and action time-outs).
#include <sim.h>
#include "loopdrv.h"
#include "c17_ref.h"

#include <tbox/event/loop.h>
#include <tbox/event/timer_event.h>
#include <tbox/flow/action.h>
#include <tbox/flow/actions/sequence_action.h>
#include <tbox/flow/actions/parallel_action.h>
#include <tbox/flow/actions/if_else_action.h>
#include <tbox/flow/actions/if_then_action.h>
#include <tbox/flow/actions/switch_action.h>
#include <tbox/flow/actions/loop_action.h>
#include <tbox/flow/actions/loop_if_action.h>
#include <tbox/flow/actions/repeat_action.h>
#include <tbox/flow/actions/wrapper_action.h>
#include <tbox/flow/actions/composite_action.h>
#include <tbox/flow/actions/sleep_action.h>
#include <tbox/flow/actions/succ_fail_action.h>
#include <tbox/flow/actions/function_action.h>

#include <algorithm>
#include <string>
#include <vector>

using namespace tbox;
using namespace tbox::event;
using namespace tbox::flow;

namespace {

enum Kind { N_SEQ = 0, N_PAR, N_IFELSE, N_IFTHEN, N_SWITCH, N_LOOP, N_LOOPIF, N_REPEAT, N_WRAPPER, N_COMPOSITE, N_LEAF, N_NKIND };
enum Outcome { O_SUCC = 0, O_FAIL, O_FLIP, O_NEVER, O_BLOCK, O_NOUT };   // FLIP: fails its first `a` starts, then succeeds (or the inverse when b&1)

// ops:  node <parent (-1 root)> <kind> <mode> <a> <b> <timeout_ms>
//         leaf: mode = outcome, a = flip count, b bit0 = inverse flip, timeout = completion delay ms (0: inline)
//         composite kinds: mode = the composite's mode, a = repeat times, timeout = action time-out (0: none)
//       cfg real_leaves: leaves that succeed after a delay are SleepActions, leaves that answer at once are FunctionActions (a switch's
//         selector stays a probe leaf: it names the case through its reason)
//       ctl <dt_ms> <0 pause,1 resume,2 stop,3 reset+start once the tree is at rest,4 reset+start at any moment> <glued>    glued: issued right behind the previous control call, inside the same
//                                                                      loop task (no notification is delivered in between)
void generate(sim::Rng &r, uint64_t seed, const std::string &tier, sim::Plan &p) {
  bool thorough = tier == "thorough";
  p.cfg["backend"] = r.below(2);
  p.cfg["real_leaves"] = r.chance(350) ? 1 : 0;
  bool use_par = r.chance(300), use_timeout = r.chance(250), use_ctl = r.chance(500), use_never = r.chance(200), use_block = r.chance(150);
  int n = (int)r.range(1, thorough ? 14 : 10);
  std::vector<int> kind, depth, nchild;
  for (int i = 0; i < n; ++i) {
    sim::Op op; op.kind = "node";
    long parent = -1;
    if (i > 0) {
      // pick a composite parent that can still take children
      std::vector<int> cand;
      for (int j = 0; j < i; ++j) {
        if (kind[(size_t)j] == N_LEAF || depth[(size_t)j] >= 3) continue;
        int cap = 4;
        if (kind[(size_t)j] == N_IFELSE) cap = 3; else if (kind[(size_t)j] == N_LOOPIF) cap = 2;
        else if (kind[(size_t)j] == N_LOOP || kind[(size_t)j] == N_REPEAT || kind[(size_t)j] == N_WRAPPER || kind[(size_t)j] == N_COMPOSITE) cap = 1;
        if (nchild[(size_t)j] < cap) cand.push_back(j);
      }
      if (cand.empty()) break;
      parent = cand[r.below(cand.size())];
      nchild[(size_t)parent]++;
    }
    long k;
    bool leaf = i > 0 && (r.chance(550) || depth[(size_t)parent] >= 2);
    if (leaf) k = N_LEAF;
    else { do { k = (long)r.below(N_LEAF); } while (k == N_PAR && !use_par); }
    long mode = 0, a = 0, b = 0, tmo = 0;
    if (k == N_LEAF) {
      unsigned x = (unsigned)r.below(100);
      mode = x < 40 ? O_SUCC : x < 65 ? O_FAIL : x < 90 ? O_FLIP : (use_never && x < 95) ? O_NEVER : (use_block ? O_BLOCK : O_SUCC);
      a = r.range(1, 3); b = r.below(2);
      tmo = r.chance(400) ? 0 : r.range(1, 30);
    } else {
      mode = (long)r.below(4); a = r.range(1, 4);
      if (use_timeout && r.chance(300)) tmo = r.range(5, 60);
    }
    op.a = {parent, k, mode, a, b, tmo};
    p.ops.push_back(op);
    kind.push_back((int)k); depth.push_back(i == 0 ? 0 : depth[(size_t)parent] + 1); nchild.push_back(0);
  }
  if (use_ctl || use_never || use_block) {
    int nc = (int)r.range(1, 6);
    if (r.chance(200)) {
      // a pause that lands while a child's finish notification is still on its way (right behind start(), or in the loop pass
      // in which a leaf's timer fires), then resume / pause / resume without a loop pass in between
      sim::Op a; a.kind = "ctl"; a.a = {r.chance(500) ? 0 : r.range(1, 30), 0, r.chance(500) ? 1 : 0}; p.ops.push_back(a);
      long steps = r.range(1, 3);
      for (long k = 0; k < steps; ++k) { sim::Op b; b.kind = "ctl"; b.a = {k == 0 ? r.range(0, 3) : 0, (k % 2) ? 0 : 1, k == 0 ? 0 : 1}; p.ops.push_back(b); }
    }
    for (int i = 0; i < nc; ++i) {
      sim::Op op; op.kind = "ctl";
      unsigned x = (unsigned)r.below(100);
      op.a = {r.chance(300) ? 0 : r.range(1, 40), x < 30 ? 0 : x < 65 ? 1 : x < 82 ? 2 : x < 93 ? 3 : 4, r.chance(250) ? 1 : 0};
      p.ops.push_back(op);
    }
  }
  if (r.chance(300)) p.cfg["final_stops_root"] = 1;     // drawn last: older seeds keep their plans
  p.sched.strategy = "none";
}

// ---------------------------------------------------------------------- tree spec
struct Spec { int parent = -1, kind = N_LEAF; long mode = 0, a = 0, b = 0, tmo = 0; std::vector<int> ch; int impl = 0; };

struct Ev { int what; int node; long v; long t; };   // what: 0 leaf start, 1 root finish (v = result), 2 root block, 3 final hook, 4 leaf finished
struct Run {
  std::vector<Ev> ev;
};

struct Tree;
class ProbeLeaf : public Action {
  public:
    ProbeLeaf(Loop &loop, Tree *t, int idx, const Spec &s);
    ~ProbeLeaf() override { delete timer_; }
    bool isReady() const override { return true; }
    bool pending() const { return pending_; }
  protected:
    void onStart() override;
    void onStop() override { timer_->disable(); pending_ = false; Action::onStop(); }
    void onPause() override { timer_->disable(); Action::onPause(); }
    void onResume() override { Action::onResume(); arm(); }
    void onReset() override { timer_->disable(); pending_ = false; starts_ = 0; Action::onReset(); }
  private:
    void arm();
    void complete();
    Tree *t_; int idx_; Spec s_;
    TimerEvent *timer_;
    long starts_ = 0;
    bool pending_ = false;
    bool result_now_ = true;
};

struct Tree {
  Loop *loop = nullptr;
  int64_t t0_ms = 0;
  std::vector<Spec> spec;
  std::vector<Action *> nodes;      // nodes[i] built from spec[i]
  Run *rec = nullptr;
  long leaf_starts = 0;
  bool overrun = false;
  std::function<void()> on_forced_stop;
};

ProbeLeaf::ProbeLeaf(Loop &loop, Tree *t, int idx, const Spec &s) : Action(loop, "Probe"), t_(t), idx_(idx), s_(s), timer_(loop.newTimerEvent("probe")) {
  timer_->setCallback([this] { complete(); });
}
void ProbeLeaf::onStart() {
  Action::onStart();
  if (pending_) sim::violation("C17/child-restarted-while-underway", sim::fmt("leaf n%d was started again while its previous run had neither finished nor been stopped", idx_));
  ++starts_; ++t_->leaf_starts;
  if (t_->leaf_starts > 300 && !t_->overrun) {
    // an endless loop (LoopAction in forever mode, ...): stop the tree from outside, as a user would
    t_->overrun = true;
    Tree *tt = t_;
    loop_.runNext([tt] { if (tt->nodes[0] && tt->nodes[0]->isUnderway()) { tt->nodes[0]->stop(); if (tt->on_forced_stop) tt->on_forced_stop(); } }, "c17.overrun-stop");
  }
  if (idx_ >= 0) t_->rec->ev.push_back(Ev{0, idx_, starts_, (long)(sim::now_ms() - t_->t0_ms)});
  sim::trace("leaf n%d start #%ld", idx_, starts_);
  sim::relevant();
  switch (s_.mode) {
    case O_SUCC: result_now_ = true; break;
    case O_FAIL: result_now_ = false; break;
    case O_FLIP: { bool late = starts_ > s_.a; result_now_ = (s_.b & 1) ? !late : late; break; }
    default: result_now_ = true; break;
  }
  if (s_.mode == O_NEVER) { pending_ = true; return; }
  if (s_.mode == O_BLOCK && starts_ == 1) { pending_ = true; block(Reason(7, "probe blocks")); return; }
  pending_ = true;
  if (s_.tmo <= 0) complete();
  else arm();
}
void ProbeLeaf::arm() {
  if (s_.mode == O_NEVER) return;
  timer_->initialize(std::chrono::milliseconds(std::max(1L, s_.tmo)), Event::Mode::kOneshot);
  timer_->enable();
}
void ProbeLeaf::complete() {
  pending_ = false;
  if (idx_ >= 0) t_->rec->ev.push_back(Ev{4, idx_, result_now_ ? 1 : 0, (long)(sim::now_ms() - t_->t0_ms)});
  // a switch's selector reports its choice through the reason message
  finish(result_now_, Reason(0, std::string("case:c") + std::to_string(starts_ % 2)));   // the selector names the case by the full role string
}

// the same bookkeeping for leaves that are the library's own actions
void note_leaf_start(Tree *t, Loop &loop, int idx, long starts) {
  ++t->leaf_starts;
  if (t->leaf_starts > 300 && !t->overrun) {
    t->overrun = true;
    Tree *tt = t;
    loop.runNext([tt] { if (tt->nodes[0] && tt->nodes[0]->isUnderway()) { tt->nodes[0]->stop(); if (tt->on_forced_stop) tt->on_forced_stop(); } }, "c17.overrun-stop");
  }
  if (idx >= 0) t->rec->ev.push_back(Ev{0, idx, starts, (long)(sim::now_ms() - t->t0_ms)});
  sim::trace("leaf n%d start #%ld", idx, starts);
  sim::relevant();
}

class ProbeSleep : public SleepAction {
  public:
    ProbeSleep(Loop &loop, Tree *t, int idx, long ms) : SleepAction(loop, std::chrono::milliseconds(std::max(1L, ms))), t_(t), idx_(idx) {}
  protected:
    void onStart() override { note_leaf_start(t_, loop_, idx_, ++starts_); SleepAction::onStart(); }
    void onFinished(bool ok, const Reason &why, const Trace &trace) override { if (idx_ >= 0) t_->rec->ev.push_back(Ev{4, idx_, ok ? 1 : 0, (long)(sim::now_ms() - t_->t0_ms)}); SleepAction::onFinished(ok, why, trace); }
    void onReset() override { starts_ = 0; SleepAction::onReset(); }
  private:
    Tree *t_; int idx_; long starts_ = 0;
};

class ProbeFunc : public FunctionAction {
  public:
    ProbeFunc(Loop &loop, Tree *t, int idx, const Spec &s) : FunctionAction(loop, FunctionAction::Func([this] { return body(); })), t_(t), idx_(idx), s_(s) {}
  protected:
    void onReset() override { starts_ = 0; FunctionAction::onReset(); }
  private:
    bool body() {
      note_leaf_start(t_, loop_, idx_, ++starts_);
      bool r = true;
      if (s_.mode == O_FAIL) r = false;
      else if (s_.mode == O_FLIP) { bool late = starts_ > s_.a; r = (s_.b & 1) ? !late : late; }
      if (idx_ >= 0) t_->rec->ev.push_back(Ev{4, idx_, r ? 1 : 0, (long)(sim::now_ms() - t_->t0_ms)});
      return r;
    }
    Tree *t_; int idx_; Spec s_; long starts_ = 0;
};

Action *build(Tree &T, int i) {
  const Spec &s = T.spec[(size_t)i];
  Loop &L = *T.loop;
  auto child = [&](size_t k) -> Action * { if (k < s.ch.size()) return build(T, s.ch[k]); Spec pad; pad.kind = N_LEAF; pad.mode = O_SUCC; return static_cast<Action *>(new ProbeLeaf(L, &T, -1, pad)); };
  Action *a = nullptr;
  switch (s.kind) {
    case N_SEQ: { auto *x = new SequenceAction(L, static_cast<SequenceAction::Mode>(s.mode % 3)); for (size_t k = 0; k < s.ch.size(); ++k) x->addChild(build(T, s.ch[k])); if (s.ch.empty()) x->addChild(child(0)); a = x; break; }
    case N_PAR: { auto *x = new ParallelAction(L, static_cast<ParallelAction::Mode>(s.mode % 3)); for (size_t k = 0; k < s.ch.size(); ++k) x->addChild(build(T, s.ch[k])); if (s.ch.empty()) x->addChild(child(0)); a = x; break; }
    case N_IFELSE: { auto *x = new IfElseAction(L); x->setChildAs(child(0), "if"); x->setChildAs(child(1), "then"); if (s.ch.size() >= 3) x->setChildAs(child(2), "else"); a = x; break; }
    case N_IFTHEN: { auto *x = new IfThenAction(L); size_t pairs = std::max<size_t>(1, s.ch.size() / 2); for (size_t k = 0; k < pairs; ++k) { x->addChildAs(child(2 * k), "if"); x->addChildAs(child(2 * k + 1), "then"); } a = x; break; }
    case N_SWITCH: { auto *x = new SwitchAction(L); x->setChildAs(child(0), "switch"); x->setChildAs(child(1), "case:c0"); if (s.ch.size() >= 3) x->setChildAs(child(2), "case:c1"); if (s.ch.size() >= 4) x->setChildAs(child(3), "default"); a = x; break; }
    case N_LOOP: { auto *x = new LoopAction(L, child(0), static_cast<LoopAction::Mode>(s.mode % 3)); a = x; break; }
    case N_LOOPIF: { auto *x = new LoopIfAction(L); x->setChildAs(child(0), "if"); x->setChildAs(child(1), "exec"); a = x; break; }
    case N_REPEAT: { auto *x = new RepeatAction(L, child(0), (size_t)std::max(1L, std::min(4L, s.a)), static_cast<RepeatAction::Mode>(s.mode % 3)); a = x; break; }
    case N_WRAPPER: { auto *x = new WrapperAction(L, child(0), static_cast<WrapperAction::Mode>(s.mode % 4)); a = x; break; }
    case N_COMPOSITE: { auto *x = new CompositeAction(L, "Composite"); x->setChild(child(0)); a = x; break; }
    default:
      if (s.impl == 1) a = new ProbeSleep(L, &T, i, s.tmo);
      else if (s.impl == 2) a = new ProbeFunc(L, &T, i, s);
      else a = new ProbeLeaf(L, &T, i, s);
      break;
  }
  if (s.kind != N_LEAF && s.tmo > 0) a->setTimeout(std::chrono::milliseconds(s.tmo));
  T.nodes[(size_t)i] = a;
  return a;
}

// ---------------------------------------------------------------------- reference interpreter (parallel-free, no time-outs, no "never"/"block")
struct Ref {
  const std::vector<Spec> *spec;
  std::vector<long> starts;
  std::vector<std::pair<int, long>> leaf_seq;   // (leaf, start number)
  long budget = 300; bool overrun = false;
  std::string reason_of_last_leaf;
  // returns result of node i
  bool exec(int i) {
    const Spec &s = (*spec)[(size_t)i];
    auto ch = [&](size_t k) -> int { return k < s.ch.size() ? s.ch[k] : -1; };
    auto run = [&](int c) -> bool { if (c >= 0) return exec(c); if (--budget < 0) overrun = true; return true; };     // a padded child is an anonymous leaf that succeeds at once
    if (overrun) return false;
    switch (s.kind) {
      case N_LEAF: {
        long n = ++starts[(size_t)i];
        if (--budget < 0) { overrun = true; return false; }
        leaf_seq.push_back({i, n});
        reason_of_last_leaf = std::string("case:c") + std::to_string(n % 2);
        if (s.mode == O_SUCC) return true;
        if (s.mode == O_FAIL) return false;
        bool late = n > s.a; return (s.b & 1) ? !late : late;
      }
      case N_SEQ: { bool r = true; if (s.ch.empty()) return run(-1); for (size_t k = 0; k < s.ch.size(); ++k) { r = exec(s.ch[k]); if (overrun) return false; if ((s.mode % 3 == 2 && r) || (s.mode % 3 == 1 && !r)) return r; } return r; }
      case N_IFELSE: { bool c = run(ch(0)); if (overrun) return false; if (c) return run(ch(1)); if (s.ch.size() >= 3) return run(ch(2)); return true; }
      case N_IFTHEN: { size_t pairs = std::max<size_t>(1, s.ch.size() / 2); for (size_t k = 0; k < pairs; ++k) { bool c = run(ch(2 * k)); if (overrun) return false; if (c) return run(ch(2 * k + 1)); } return false; }
      case N_SWITCH: {
        bool c = run(ch(0)); if (overrun) return false;
        if (!c) return false;
        // the selector's reason message picks the case; only a direct probe-leaf selector has a message the model knows
        std::string why = (ch(0) >= 0 && (*spec)[(size_t)ch(0)].kind == N_LEAF) ? reason_of_last_leaf : std::string("?");
        if (why == "?") { unknown = true; return false; }
        if (why == "case:c0") return run(ch(1));
        if (why == "case:c1" && s.ch.size() >= 3) return run(ch(2));
        if (s.ch.size() >= 4) return run(ch(3));
        return false;
      }
      case N_LOOP: { for (;;) { bool r = run(ch(0)); if (overrun) return false; if ((s.mode % 3 == 2 && r) || (s.mode % 3 == 1 && !r)) return r; reset_subtree(ch(0)); } }
      case N_LOOPIF: { for (;;) { bool c = run(ch(0)); if (overrun) return false; if (!c) return true; run(ch(1)); if (overrun) return false; reset_subtree(ch(0)); reset_subtree(ch(1)); } }
      case N_REPEAT: { long times = std::max(1L, std::min(4L, s.a)); for (long t = 0; t < times; ++t) { if (t) reset_subtree(ch(0)); bool r = run(ch(0)); if (overrun) return false; if ((s.mode % 3 == 2 && r) || (s.mode % 3 == 1 && !r)) return r; } return true; }
      case N_WRAPPER: { bool r = run(ch(0)); int m = (int)(s.mode % 4); return m == 0 ? r : m == 1 ? !r : m == 2; }
      case N_COMPOSITE: return run(ch(0));
    }
    return true;
  }
  bool unknown = false;
  void reset_subtree(int i) { if (i < 0) return; starts[(size_t)i] = 0; for (int c : (*spec)[(size_t)i].ch) reset_subtree(c); }
};

struct World {
  bool final_stops_root = false, in_outer_stop = false;
  Tree tree, fresh;
  Run run1, run2, runf;
  Run *cur = nullptr;
  long root_finishes = 0, root_blocks = 0, finals = 0;
  bool stopped = false, finished = false, paused = false, started = false;
  int64_t settle_check_at = -1;
  bool ctl_used = false;
  int run_no = 1;
  bool second_run = false;
  bool disturbed2 = false;      // a control call was made during the second run: it is no longer comparable with an undisturbed fresh tree
};
World *Wp;
#define W (*Wp)

void check_nothing_underway(Tree &T, const char *when);

void hook_root(Tree &T, Run &run, int my_run) {
  Action *root = T.nodes[0];
  root->setFinishCallback([&run, &T, my_run](bool ok, const Action::Reason &, const Action::Trace &) {
    run.ev.push_back(Ev{1, 0, ok ? 1 : 0, (long)(sim::now_ms() - T.t0_ms)});
    sim::trace("root finished %d", (int)ok);
    if (my_run && my_run != W.run_no) sim::violation("C17/stale-notification-after-reset", sim::fmt("the finish notification of run %d was delivered after the tree had been reset and started again", my_run));
    if (&run == W.cur) {
      ++W.root_finishes;
      if (W.stopped) sim::violation("C17/finish-after-stop", "the root's finish callback was delivered after stop() had returned");
      if (W.root_finishes > 1) sim::violation("C17/root-finished-twice", "the root's finish callback ran twice in one run");
      W.finished = true;
      int run_no = W.run_no;
      Loop *lp = W.tree.loop;
      lp->runNext([lp, run_no] { lp->runNext([run_no] { if (W.run_no == run_no && W.finished) check_nothing_underway(W.tree, "one loop pass after the root finished"); }, "c17.settle2"); }, "c17.settle1");
    }
  });
  root->setBlockCallback([&run, &T, my_run](const Action::Reason &, const Action::Trace &) {
    run.ev.push_back(Ev{2, 0, 0, (long)(sim::now_ms() - T.t0_ms)});
    if (my_run && my_run != W.run_no) sim::violation("C17/stale-notification-after-reset", sim::fmt("the block notification of run %d was delivered after the tree had been reset and started again", my_run));
    if (&run == W.cur) { ++W.root_blocks; if (W.stopped) sim::violation("C17/block-after-stop", "a block notification was delivered after stop() had returned"); }
  });
  if (auto *as = dynamic_cast<AssembleAction *>(root)) as->setFinalCallback([&run] { run.ev.push_back(Ev{3, 0, 0, 0}); if (&run == W.cur) ++W.finals; });
  // cfg final_stops_root: while the root is being stopped from outside, the final hook of every inner composite stops the root as well
  // (an application that tears the whole flow down when a part of it ends).  The root is being stopped already: the nested call has nothing
  // left to do, and the root's own final hook still runs once.
  if (W.final_stops_root)
    for (size_t i = 1; i < T.nodes.size(); ++i)
      if (auto *as = dynamic_cast<AssembleAction *>(T.nodes[i]))
        as->setFinalCallback([root] { if (W.in_outer_stop) { sim::probe("stop_reentered_from_final_hook"); root->stop(); } });
}

void check_nothing_underway(Tree &T, const char *when) {
  for (size_t i = 0; i < T.nodes.size(); ++i) {
    Action *a = T.nodes[i];
    if (a && a->isUnderway()) { sim::violation("C17/descendant-left-underway", sim::fmt("%s: node n%zu (%s) is still %s", when, i, a->type().c_str(), a->state() == Action::State::kRunning ? "running" : "paused")); return; }
    if (auto *pl = dynamic_cast<ProbeLeaf *>(a)) if (pl->pending()) { sim::violation("C17/descendant-left-underway", sim::fmt("%s: leaf n%zu still has a completion pending", when, i)); return; }
  }
}

std::vector<std::pair<int, long>> leaf_seq_of(const Run &r) { std::vector<std::pair<int, long>> v; for (const Ev &e : r.ev) if (e.what == 0) v.push_back({e.node, e.v}); return v; }

void execute(const sim::Plan &plan) {
  sim::start(plan);
  sim::name_thread("loop");
  sim::set_deadlock_handler([](const sim::DeadlockInfo &info) { sim::violation("C17/loop-never-wakes", "the loop blocks for ever before the end of the plan: " + info.summary); });
  sim::set_stepcap_handler([] { sim::violation("C17/livelock", "the action tree spins without progress (step cap)"); });
  World world; Wp = &world;
  W.final_stops_root = plan.get("final_stops_root") != 0;
  std::vector<Spec> spec;
  for (const sim::Op &op : plan.ops) {
    if (op.kind != "node" || spec.size() >= 16) continue;
    Spec s; int id = (int)spec.size();
    s.parent = id == 0 ? -1 : (int)(((op.arg(0) % id) + id) % id);
    s.kind = (int)(((op.arg(1) % N_NKIND) + N_NKIND) % N_NKIND);
    if (id == 0 && s.kind == N_LEAF) s.kind = N_SEQ;
    if (id > 0 && spec[(size_t)s.parent].kind == N_LEAF) s.parent = 0;
    s.mode = std::max(0L, op.arg(2)); if (s.kind == N_LEAF) s.mode %= O_NOUT;
    s.a = std::max(0L, op.arg(3)); s.b = std::max(0L, op.arg(4)); s.tmo = std::max(0L, std::min(200L, op.arg(5)));
    spec.push_back(s);
    if (id > 0) spec[(size_t)s.parent].ch.push_back(id);
  }
  if (spec.empty()) { Spec s; s.kind = N_SEQ; spec.push_back(s); }
  if (plan.get("real_leaves")) for (size_t i = 1; i < spec.size(); ++i) {
    Spec &s = spec[i];
    if (s.kind != N_LEAF) continue;
    const Spec &par = spec[(size_t)s.parent];
    if (par.kind == N_SWITCH && !par.ch.empty() && par.ch[0] == (int)i) continue;       // the selector
    if (s.mode == O_SUCC && s.tmo > 0) s.impl = 1;
    else if ((s.mode == O_SUCC || s.mode == O_FAIL || s.mode == O_FLIP) && s.tmo == 0) s.impl = 2;
  }
  bool has_par = false, has_tmo = false, has_never = false, has_block = false;
  for (const Spec &s : spec) { if (s.kind == N_PAR) has_par = true; if (s.kind != N_LEAF && s.tmo > 0) has_tmo = true; if (s.kind == N_LEAF && s.mode == O_NEVER) has_never = true; if (s.kind == N_LEAF && s.mode == O_BLOCK) has_block = true; }

  Loop *loop = Loop::New(plan.get("backend") ? "select" : "epoll");
  W.tree.loop = loop; W.tree.spec = spec; W.tree.nodes.assign(spec.size(), nullptr); W.tree.rec = &W.run1;
  Action *root = build(W.tree, 0);
  W.tree.on_forced_stop = [] { W.stopped = true; };
  W.cur = &W.run1;
  hook_root(W.tree, W.run1, 1);
  if (!root->isReady()) { sim::violation("C17/tree-not-ready", "a well-formed tree reports isReady()==false"); return; }

  static drv::Timeline tl;
  tl = drv::Timeline();
  int64_t t = sim::now_ns();
  const int64_t t0_start = t;
  static std::vector<const sim::Op *> with_start;
  with_start.clear();
  for (const sim::Op &op : plan.ops) { if (op.kind != "ctl") continue; if (op.arg(2) != 0) with_start.push_back(&op); else break; }
  auto do_ctl = [root](const sim::Op *o) {
    long c = ((o->arg(1) % 5) + 5) % 5;
    W.ctl_used = true;
    sim::trace("ctl %ld%s", c, o->arg(2) ? " (glued)" : "");
    if (c < 3 && W.second_run) W.disturbed2 = true;
    if (c == 0) { if (root->isRunning()) { root->pause(); W.paused = true; } }
    else if (c == 1) { if (root->state() == Action::State::kPause) { root->resume(); W.paused = false; } }
    else if (c == 2) { if (root->isUnderway()) { W.in_outer_stop = true; root->stop(); W.in_outer_stop = false; W.stopped = true; check_nothing_underway(W.tree, "right after stop()"); } }
    else if (!W.second_run && W.started && (c == 4 || !root->isUnderway()) && root->state() != Action::State::kIdle) {
      if (root->isUnderway()) sim::probe("resets_while_underway");   // also in the window between finish() and the delivery of its notification
      // reset and run again: must behave like a freshly built tree
      root->reset();
      for (size_t i = 0; i < W.tree.nodes.size(); ++i) if (W.tree.nodes[i] && W.tree.nodes[i]->state() != Action::State::kIdle) { sim::violation("C17/reset-incomplete", sim::fmt("after reset() node n%zu is not idle", i)); break; }
      W.second_run = true; W.run_no = 2; W.cur = &W.run2; W.tree.rec = &W.run2; W.tree.leaf_starts = 0; W.tree.overrun = false;
      hook_root(W.tree, W.run2, 2);
      W.root_finishes = 0; W.root_blocks = 0; W.finals = 0; W.stopped = false; W.finished = false; W.paused = false;
      root->start();
    }
  };
  static std::vector<std::vector<const sim::Op *>> groups;
  groups.clear();
  std::vector<int64_t> group_t;
  for (const sim::Op &op : plan.ops) {
    if (op.kind != "ctl") continue;
    if (op.arg(2) != 0 && groups.empty() && std::find(with_start.begin(), with_start.end(), &op) != with_start.end()) { sim::probe("glued_control_calls"); continue; }
    if (op.arg(2) != 0 && !groups.empty()) { groups.back().push_back(&op); sim::probe("glued_control_calls"); continue; }
    t += std::max(0L, std::min(500L, op.arg(0))) * 1000000;
    groups.push_back({&op}); group_t.push_back(t);
  }
  tl.at(t0_start, [root, loop, do_ctl] { loop->runInLoop([root, do_ctl] { W.started = true; W.tree.t0_ms = sim::now_ms(); root->start(); for (const sim::Op *o : with_start) do_ctl(o); }, "c17.start"); });
  for (size_t g = 0; g < groups.size(); ++g) {
    tl.at(group_t[g], [g, loop, do_ctl] { loop->runInLoop([g, do_ctl] { for (const sim::Op *o : groups[g]) do_ctl(o); }, "c17.ctl"); });
  }
  t += 20000 * 1000000LL;      // 20 s of virtual time: far more than any tree needs
  tl.at(t, [loop] { loop->runInLoop([loop] { loop->exitLoop(); }, "c17.exit"); });
  tl.install();
  loop->runLoop(Loop::Mode::kForever);
  sim::set_prewait_hook(nullptr);

  // ---------------------------------------------------------------- oracle
  bool blocked_forever = W.root_blocks > 0 && !W.finished && !W.stopped;
  if (sim::violation_count() == 0) {
    if (W.finished || W.stopped) check_nothing_underway(W.tree, W.finished ? "after the root finished (and 20 s more)" : "after stop()");
    if ((W.finished || W.stopped) && dynamic_cast<AssembleAction *>(root) && W.finals != 1)
      sim::violation("C17/final-hook-count", sim::fmt("the final hook ran %ld times in a run that %s", W.finals, W.finished ? "finished" : "was stopped"));
  }
  // liveness for every tree whose leaves all complete: unless it was stopped or is still paused, the root has finished by now
  if (sim::violation_count() == 0 && W.started && !has_never && !has_block && !W.tree.overrun && !W.stopped && !W.finished) {
    bool paused_now = root->state() == Action::State::kPause && W.paused;
    if (!paused_now) {
      std::string st;
      for (size_t i = 0; i < W.tree.nodes.size(); ++i) if (W.tree.nodes[i]) st += sim::fmt(" n%zu:%s=%s", i, W.tree.nodes[i]->type().c_str(), ToString(W.tree.nodes[i]->state()).c_str());
      sim::violation("C17/root-never-finished", "every leaf completes, the tree was not stopped and is not paused, yet the root has not finished 20 s after the last operation; states:" + st);
    }
  }
  // semantic oracle: parallel-free, time-out-free trees with leaves that always complete
  bool semantic = !has_par && !has_tmo && !has_never && !has_block && !W.tree.overrun;
  if (sim::violation_count() == 0 && semantic) {
    Ref ref; ref.spec = &spec; ref.starts.assign(spec.size(), 0);
    bool want = ref.exec(0);
    if (!ref.overrun && !ref.unknown) {
      const Run &last = W.second_run ? W.run2 : W.run1;
      bool was_stopped = W.stopped, was_paused_at_end = W.paused && !W.finished;
      std::vector<std::pair<int, long>> got = leaf_seq_of(last);
      if (!was_stopped && !was_paused_at_end) {
        if (!W.finished) sim::violation("C17/root-never-finished", "every leaf completes, nothing was stopped or left paused, yet the root never finished");
        else {
          long res = -1; for (const Ev &e : last.ev) if (e.what == 1) res = e.v;
          if (res != (want ? 1 : 0)) sim::violation("C17/root-result", sim::fmt("the root finished with %s, the documented control flow of its composites gives %s", res ? "success" : "failure", want ? "success" : "failure"));
          else if (got != ref.leaf_seq) {
            size_t i = 0; while (i < got.size() && i < ref.leaf_seq.size() && got[i] == ref.leaf_seq[i]) ++i;
            sim::violation("C17/child-start-order", sim::fmt("leaves were started %zu times, the documented control flow starts them %zu times; first difference at start #%zu", got.size(), ref.leaf_seq.size(), i));
          }
        }
      } else {
        // stopped or left paused: what ran must be a prefix of the documented order
        bool prefix = got.size() <= ref.leaf_seq.size() && std::equal(got.begin(), got.end(), ref.leaf_seq.begin());
        if (!prefix) sim::violation("C17/child-start-order", "the leaves started before the stop/pause are not a prefix of the documented start order");
      }
    }
  }
  // timed reference model: every tree (parallel, time-outs, never/blocking leaves, control calls), whenever the model can predict
  if (sim::violation_count() == 0 && W.started && !W.tree.overrun) {
    std::vector<c17ref::InSpec> in;
    for (const Spec &s : spec) in.push_back(c17ref::InSpec{s.kind, s.mode, s.a, s.b, s.tmo, s.ch, s.impl});
    c17ref::Model M(in);
    std::vector<c17ref::Ctl> ctls; long at = 0;
    bool lead = true;      // control calls glued to start()
    for (const sim::Op &op : plan.ops) if (op.kind == "ctl") {
      bool glued = op.arg(2) != 0 && (!ctls.empty() || lead);
      if (!glued) lead = false;
      if (!glued) at += std::max(0L, std::min(500L, op.arg(0)));
      ctls.push_back(c17ref::Ctl{at, (int)(((op.arg(1) % 5) + 5) % 5), glued});
    }
    if (M.simulate(ctls, at + 20000)) {
      sim::probe("timed_reference_checks");
      const Run *real[2] = {&W.run1, &W.run2};
      for (int k = 0; k < (M.second ? 2 : 1) && sim::violation_count() == 0; ++k) {
        std::vector<c17ref::LeafStart> got; int fins = 0, blocks = 0; long res = -1, fin_t = -1;
        for (const Ev &e : real[k]->ev) { if (e.what == 0) got.push_back(c17ref::LeafStart{e.node, e.v, e.t}); else if (e.what == 1) { ++fins; res = e.v; fin_t = e.t; } else if (e.what == 2) ++blocks; }
        const c17ref::RunRec &want = M.run[k];
        if (!(got == want.starts)) {
          size_t i = 0; while (i < got.size() && i < want.starts.size() && got[i] == want.starts[i]) ++i;
          std::string g = i < got.size() ? sim::fmt("leaf n%d start #%ld at +%ld ms", got[i].leaf, got[i].n, got[i].t) : std::string("nothing");
          std::string w = i < want.starts.size() ? sim::fmt("leaf n%d start #%ld at +%ld ms", want.starts[i].leaf, want.starts[i].n, want.starts[i].t) : std::string("nothing");
          sim::violation("C17/child-start-order", sim::fmt("run %d: leaf start #%zu is %s, the timed reference model of the composites gives %s (%zu starts vs %zu)", k + 1, i, g.c_str(), w.c_str(), got.size(), want.starts.size()));
        } else if (fins != want.finishes) sim::violation(fins > want.finishes ? "C17/root-finished-unexpectedly" : "C17/root-never-finished", sim::fmt("run %d: the root's finish callback ran %d times, the timed reference model gives %d", k + 1, fins, want.finishes));
        else if (fins && (res != (want.result ? 1 : 0))) sim::violation("C17/root-result", sim::fmt("run %d: the root finished with %s, the timed reference model gives %s", k + 1, res ? "success" : "failure", want.result ? "success" : "failure"));
        else if (fins && fin_t != want.finish_t) sim::violation("C17/root-finish-time", sim::fmt("run %d: the root finished at +%ld ms, the timed reference model gives +%ld ms", k + 1, fin_t, want.finish_t));
        else if (blocks != want.blocks) sim::violation("C17/root-block-count", sim::fmt("run %d: the root's block callback ran %d times, the timed reference model gives %d", k + 1, blocks, want.blocks));
      }
      if (sim::violation_count() == 0) {
        static const Action::State map[] = {Action::State::kIdle, Action::State::kRunning, Action::State::kPause, Action::State::kFinished, Action::State::kStoped};
        for (size_t i = 0; i < M.nd.size(); ++i) {
          int sp = M.nd[i].spec; if (sp < 0 || !W.tree.nodes[(size_t)sp]) continue;
          if (W.tree.nodes[(size_t)sp]->state() != map[M.nd[i].st]) { sim::violation("C17/final-state-differs", sim::fmt("at the end node n%d (%s) is %s, the timed reference model leaves it %s", sp, W.tree.nodes[(size_t)sp]->type().c_str(), ToString(W.tree.nodes[(size_t)sp]->state()).c_str(), ToString(map[M.nd[i].st]).c_str())); break; }
        }
      }
    } else sim::probe(M.overrun ? "timed_reference_overrun" : "timed_reference_ambiguous");
  }
  // a reset tree behaves like a freshly built one (compare with a fresh identical tree run without control calls)
  if (sim::violation_count() == 0 && W.second_run && !W.disturbed2 && !W.stopped && !blocked_forever && !has_never && !has_block) {
    // only meaningful if the second run was not disturbed: no control op after the reset => approximate by requiring it finished
    if (W.finished) {
      Loop *loop2 = Loop::New(plan.get("backend") ? "select" : "epoll");
      W.fresh.loop = loop2; W.fresh.spec = spec; W.fresh.nodes.assign(spec.size(), nullptr); W.fresh.rec = &W.runf;
      Action *froot = build(W.fresh, 0);
      Run *saved = W.cur; W.cur = nullptr;
      hook_root(W.fresh, W.runf, 0);
      static drv::Timeline tl2; tl2 = drv::Timeline();
      int64_t t2 = sim::now_ns();
      tl2.at(t2, [froot, loop2] { loop2->runInLoop([froot] { W.fresh.t0_ms = sim::now_ms(); froot->start(); }, "c17.fresh"); });
      tl2.at(t2 + 20000 * 1000000LL, [loop2] { loop2->runInLoop([loop2] { loop2->exitLoop(); }, "c17.exit2"); });
      tl2.install();
      loop2->runLoop(Loop::Mode::kForever);
      sim::set_prewait_hook(nullptr);
      W.cur = saved;
      auto strip = [](const Run &r) { std::vector<std::pair<int, long>> v; for (const Ev &e : r.ev) if (e.what == 0 || e.what == 1 || e.what == 4) v.push_back({e.what * 100 + e.node, e.v}); return v; };
      if (!has_par && strip(W.run2) != strip(W.runf)) sim::violation("C17/reset-tree-differs-from-fresh", sim::fmt("after reset() the second run produced %zu leaf/finish events, a freshly built identical tree produces %zu (or they differ in content)", strip(W.run2).size(), strip(W.runf).size()));
      sim::probe("reset_vs_fresh_comparisons");
      delete froot;
      delete loop2;
    }
  }
  sim::probe("leaf_starts", W.tree.leaf_starts);
  if (semantic) sim::probe("semantic_checks");
  // tear down: stop whatever still runs (a tree left paused/blocked on purpose), then delete
  if (root->isUnderway()) root->stop();
  delete root;
  delete loop;
  sim::finish();
}

const sim::Harness H = {"C17", "c17_actions", generate, execute};
}  // namespace

int main(int argc, char **argv) { return sim::harness_main(argc, argv, H); }
