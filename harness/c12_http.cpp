// C12 — HTTP server: total, segmentation-independent parsing; in-order exactly-once responses; close semantics.
// Single-loop mode; the client is a raw AF_UNIX socket driven from the pre-wait hook.
#include <sim.h>
#include "loopdrv.h"

#include <tbox/event/loop.h>
#include <tbox/eventx/timer_pool.h>
#include <tbox/http/server/server.h>
#include <tbox/http/server/context.h>
#include <tbox/network/sockaddr.h>

#include <fcntl.h>
#include <sys/socket.h>
#include <sys/un.h>
#include <unistd.h>

#include <algorithm>
#include <map>
#include <sstream>
#include <tbox/http/server/request_parser.h>
#include <tbox/http/request.h>
#include <string>
#include <vector>

using namespace tbox;
using namespace tbox::event;
using namespace tbox::http;
using namespace tbox::http::server;

namespace {

static const char *METHODS[] = {"GET", "POST", "PUT", "DELETE", "HEAD", "OPTIONS", "TRACE"};

// ops
//   req <method> <target> <ver(0=1.1,1=1.0)> <conn(0 none,1 close,2 keep-alive,3 "TE, close",4 "close, TE",5 "keep-alive, TE")> <bodylen> <hmode(0 inline,1 runNext,2 timer)> <hdelay_ms> <nhdr> <gmode> <gdelay_ms>
//       (cfg gate=1: a middleware in front of the handler keeps the NextFunc it was given and calls it inline / from runNext / from a timer)
//   seg <size> <dt_ms>                     segment sizes, used cyclically (only in the segmented delivery)
//   mut <pos> <val>    junk <len> <seed>   cut <after_bytes>         (hostile plans)
//   biglen <which>     (hostile plans) a request with a Content-Length of 19-22 digits (around 2^63, 2^64 and beyond), behind the stream
//   tgt <which>        (hostile plans) a request whose target holds a broken percent escape (bytes >= 0x80, non-hex, cut off), in front of the stream
void generate(sim::Rng &r, uint64_t seed, const std::string &tier, sim::Plan &p) {
  bool thorough = tier == "thorough";
  bool hostile = r.chance(350);
  p.cfg["hostile"] = hostile;
  p.cfg["backend"] = r.below(2);
  p.cfg["gate"] = r.chance(300) ? 1 : 0;
  int nreq = (int)r.range(1, 6);
  int close_at = r.chance(400) ? (int)r.below((uint64_t)nreq) : -1;
  for (int i = 0; i < nreq; ++i) {
    sim::Op op; op.kind = "req";
    long ver = 0, conn = 0;
    if (i == close_at) { if (r.chance(500)) conn = r.pick((const long[]){1, 1, 3, 4}); else { ver = 1; conn = r.chance(300) ? r.pick((const long[]){1, 3, 4}) : 0; } }
    else if (r.chance(150)) { ver = 1; conn = r.chance(700) ? 2 : 5; }            // HTTP/1.0 keep-alive: not a closing request
    else if (r.chance(150)) conn = r.chance(700) ? 2 : 5;
    long bl = r.chance(400) ? 0 : r.pick((const long[]){1, 2, 10, 100, 1000, 8192});
    if (thorough && r.chance(50)) bl = 70000;
    op.a = {(long)r.below(7), r.range(0, 99), ver, conn, bl, (long)r.below(3), r.range(0, 8), r.range(0, 4), (long)r.below(3), r.range(0, 8)};
    p.ops.push_back(op);
  }
  // a first connection sends the first `reconn` requests and hangs up at once (their handlers may still be pending);
  // a second connection then sends the rest: it must get its own responses and nothing else
  if (!hostile && nreq >= 2 && r.chance(250)) p.cfg["reconn"] = r.range(1, nreq - 1);
  int nseg = (int)r.range(1, 12);
  for (int i = 0; i < nseg; ++i) {
    sim::Op op; op.kind = "seg";
    long sz = r.chance(400) ? r.range(1, 4) : r.chance(500) ? r.range(5, 60) : r.range(61, 3000);
    op.a = {sz, r.chance(600) ? 0 : r.range(1, 5)};
    if (r.chance(300)) {
      op.fseed = r.next() >> 2; op.fmask = 0;
      if (r.chance(500)) op.fmask |= sim::F_SHORT_WRITE;
      if (r.chance(300)) op.fmask |= sim::F_WRITE_EAGAIN;
      if (r.chance(500)) op.fmask |= sim::F_SHORT_READ;
      if (r.chance(200)) op.fmask |= sim::F_LATE_WAKE;
    }
    p.ops.push_back(op);
  }
  if (hostile) {
    int nm = (int)r.range(1, 6);
    for (int i = 0; i < nm; ++i) {
      sim::Op op;
      unsigned x = (unsigned)r.below(100);
      static const long vals[] = {0, '\n', '\r', ' ', ':', '-', '9', 'x', 0x80, 0xff, '/', '?', '%', '&', '='};
      if (x < 12) { op.kind = "tgt"; op.a = {(long)r.below(16)}; }
      else if (x < 20) { op.kind = "biglen"; op.a = {(long)r.below(8)}; }
      else if (x < 70) { op.kind = "mut"; op.a = {(long)r.below(100000), vals[r.below(15)]}; }
      else if (x < 90) { op.kind = "junk"; op.a = {r.range(1, 300), (long)(r.next() & 0xffff)}; }
      else { op.kind = "cut"; op.a = {(long)r.below(5000)}; }
      p.ops.push_back(op);
    }
  }
  p.sched.strategy = "none";
}

struct Truth { std::string canon; bool closing; long hmode, hdelay; long gmode = 0, gdelay = 0; size_t end_off = 0; };

std::string build_stream(const sim::Plan &plan, std::vector<Truth> &truth) {
  std::string s;
  int idx = 0;
  for (const sim::Op &op : plan.ops) {
    if (op.kind != "req") continue;
    const char *m = METHODS[((op.arg(0) % 7) + 7) % 7];
    long tgt = std::max(0L, op.arg(1));
    bool v10 = op.arg(2) != 0;
    long conn = ((op.arg(3) % 6) + 6) % 6;     // 0 none, 1 close, 2 keep-alive, 3 "TE, close", 4 "close, TE", 5 "keep-alive, TE"
    long bl = std::max(0L, std::min(100000L, op.arg(4)));
    std::string path = "/a" + std::to_string(tgt), wire_path = path;
    if (tgt % 7 == 3) { wire_path = path + "%2Fx%41%7e"; path += "/xA~"; }      // percent escapes in the path: the handler sees the decoded path
    std::string query_k = "q", query_v = std::to_string(idx);
    std::string body;
    for (long i = 0; i < bl; ++i) {
      unsigned v = (unsigned)((i * 7 + idx * 13 + tgt) % 97);
      char c = (char)(0x20 + v % 95);
      if (v == 50) c = '\r'; if (v == 51) c = '\n'; if (v == 52) c = ':';
      body.push_back(c);
    }
    std::vector<std::pair<std::string, std::string>> hdr;
    hdr.push_back({"Host", "h" + std::to_string(tgt)});
    hdr.push_back({"X-Seq", std::to_string(idx)});
    for (long k = 0; k < std::min(4L, std::max(0L, op.arg(7))); ++k) hdr.push_back({"X-H" + std::to_string(k), "v" + std::to_string(k * 3 + idx)});
    static const char *const CONNV[] = {"", "close", "keep-alive", "TE, close", "close, TE", "keep-alive, TE"};
    if (conn != 0) hdr.push_back({"Connection", CONNV[conn]});
    hdr.push_back({"Content-Length", std::to_string(bl)});
    std::string ver = v10 ? "HTTP/1.0" : "HTTP/1.1";
    s += std::string(m) + " " + wire_path + "?" + query_k + "=" + query_v + " " + ver + "\r\n";
    for (auto &h : hdr) s += h.first + ": " + h.second + "\r\n";
    s += "\r\n";
    s += body;
    Truth t;
    std::sort(hdr.begin(), hdr.end());
    std::ostringstream os;
    os << m << " " << path << " ?" << query_k << "=" << query_v << " " << ver << "\n";
    for (auto &h : hdr) os << h.first << ": " << h.second << "\n";
    os << "\n" << body;
    t.canon = os.str();
    t.closing = v10 ? (conn != 2 && conn != 5) : (conn == 1 || conn == 3 || conn == 4);
    t.hmode = ((op.arg(5) % 3) + 3) % 3;
    t.hdelay = std::max(0L, std::min(50L, op.arg(6)));
    t.gmode = ((op.arg(8) % 3) + 3) % 3;
    t.gdelay = std::max(0L, std::min(50L, op.arg(9)));
    t.end_off = s.size();
    truth.push_back(t);
    ++idx;
  }
  return s;
}

struct World {
  Loop *loop = nullptr;
  Server *server = nullptr;
  eventx::TimerPool *tp = nullptr;
  std::vector<Truth> *truth = nullptr;
  std::vector<std::string> handled;     // canonical strings, in the order the first middleware saw them
  std::map<const Context *, size_t> idx_of;   // requests between the gate and the handler
  bool gate = false;
  int cfd = -1;
  bool client_closed = false;           // the driver closed its side (hostile "cut")
  bool server_eof = false;              // client read returned 0
  std::string rx;
  std::string path;
};
World W;

std::string canon_of(const Request &req) {
  std::ostringstream os;
  os << MethodToString(req.method) << " " << req.url.path << " ?";
  bool first = true;
  for (auto &kv : req.url.query) { if (!first) os << "&"; first = false; os << kv.first << "=" << kv.second; }
  os << " " << HttpVerToString(req.http_ver) << "\n";
  for (auto &h : req.headers) os << h.first << ": " << h.second << "\n";
  os << "\n" << req.body;
  return os.str();
}

// the arrival number of a request: given by the first middleware that sees it
size_t arrival(const ContextSptr &ctx, bool last) {
  size_t idx;
  auto it = W.idx_of.find(ctx.get());
  if (it != W.idx_of.end()) idx = it->second;
  else { idx = W.handled.size(); W.handled.push_back(canon_of(ctx->req())); W.idx_of[ctx.get()] = idx; }
  if (last) W.idx_of.erase(ctx.get());
  return idx;
}

// a middleware that lets the request through later (authentication, rate limit...): it keeps only the NextFunc
void gate(ContextSptr ctx, const NextFunc &next) {
  size_t idx = arrival(ctx, false);
  long mode = 0, delay = 0;
  if (idx < W.truth->size()) { mode = (*W.truth)[idx].gmode; delay = (*W.truth)[idx].gdelay; }
  sim::trace("gate #%zu mode %ld", idx, mode);
  if (mode == 0) { next(); return; }
  sim::probe("late_next_calls");
  NextFunc n = next;
  if (mode == 1) W.loop->runNext([n] { n(); }, "c12.gate");
  else W.tp->doAfter(std::chrono::milliseconds(std::max(1L, delay)), [n] { n(); });
}

void handler(ContextSptr ctx, const NextFunc &) {
  size_t idx = arrival(ctx, true);
  sim::trace("handler #%zu", idx);
  sim::relevant();
  ctx->res().status_code = StatusCode::k200_OK;
  ctx->res().body = "R" + std::to_string(idx) + ";";
  long mode = 0, delay = 0;
  if (idx < W.truth->size()) { mode = (*W.truth)[idx].hmode; delay = (*W.truth)[idx].hdelay; }
  if (mode == 1) W.loop->runNext([ctx] { sim::trace("complete (runNext)"); }, "c12.complete");
  else if (mode == 2) W.tp->doAfter(std::chrono::milliseconds(std::max(1L, delay)), [ctx] { sim::trace("complete (timer)"); });
  // mode 0: the context is released when the callback chain returns
}

void client_read_all() {
  if (W.cfd < 0 || W.client_closed || W.server_eof) return;
  char buf[65536];
  for (;;) {
    ssize_t r = sim::raw::read(W.cfd, buf, sizeof buf);
    if (r > 0) W.rx.append(buf, (size_t)r);
    else if (r == 0) { W.server_eof = true; sim::trace("client: EOF from server"); break; }
    else break;
  }
}

struct Delivery { std::vector<std::string> handled; std::string rx; bool server_eof = false; bool client_closed = false; };

Delivery deliver(const sim::Plan &plan, const std::string &stream, std::vector<Truth> &truth, bool segmented, long cut_after) {
  W = World();
  W.truth = &truth;
  W.loop = Loop::New(plan.get("backend") ? "select" : "epoll");
  W.tp = new eventx::TimerPool(W.loop);
  W.server = new Server(W.loop);
  W.path = std::string(sim::run_dir()) + (segmented ? "/h1.sock" : "/h0.sock");
  if (!W.server->initialize(network::SockAddr::FromString(W.path), 4)) { fprintf(stderr, "http init failed\n"); _exit(3); }
  W.gate = plan.get("gate") != 0;
  if (W.gate) W.server->use(gate);
  W.server->use(handler);
  W.server->start();

  static drv::Timeline tl;
  tl = drv::Timeline();
  int64_t t = sim::now_ns();
  tl.at(t, [] {
    int fd = socket(AF_UNIX, SOCK_STREAM, 0);
    struct sockaddr_un sa; memset(&sa, 0, sizeof sa); sa.sun_family = AF_UNIX;
    strncpy(sa.sun_path, W.path.c_str(), sizeof(sa.sun_path) - 1);
    if (sim::raw::connect(fd, (struct sockaddr *)&sa, sizeof sa) != 0) { perror("connect"); _exit(3); }
    int fl = fcntl(fd, F_GETFL); fcntl(fd, F_SETFL, fl | O_NONBLOCK);
    W.cfd = fd;
  });
  t += 1000000;
  // segments
  std::vector<const sim::Op *> segs;
  for (const sim::Op &op : plan.ops) if (op.kind == "seg") segs.push_back(&op);
  static std::string S;
  S = stream;
  size_t off = 0, si = 0;
  size_t limit = cut_after >= 0 ? std::min<size_t>(S.size(), (size_t)cut_after) : S.size();
  int guard = 0;
  while (off < limit && guard++ < 20000) {
    size_t sz = limit - off;
    long dt = 0;
    const sim::Op *sop = nullptr;
    if (segmented && !segs.empty()) {
      sop = segs[si % segs.size()]; ++si;
      sz = std::min<size_t>(sz, (size_t)std::max(1L, sop->arg(0)));
      dt = std::max(0L, std::min(20L, sop->arg(1)));
      if (si > segs.size() * 8) sz = limit - off;   // after 8 rounds send the rest at once
    }
    t += dt * 1000000;
    size_t o = off;
    tl.at(t, [o, sz, sop] {
      if (sop) sim::fault_scope(sop->fseed, sop->fmask); else sim::fault_scope(0, 0);
      client_read_all();
      if (W.cfd < 0 || W.client_closed) return;
      size_t done = 0;
      while (done < sz) {
        ssize_t w = sim::raw::send(W.cfd, S.data() + o + done, sz - done, MSG_NOSIGNAL);
        if (w <= 0) break;     // server closed or buffer full: give up on the rest of this segment (hostile/closing cases)
        done += (size_t)w;
      }
      sim::trace("client: segment off=%zu size=%zu sent=%zu", o, sz, done);
    });
    off += sz;
  }
  if (cut_after >= 0) {
    t += 1000000;
    tl.at(t, [] { if (W.cfd >= 0 && !W.client_closed) { close(W.cfd); W.client_closed = true; sim::trace("client: abrupt close"); } });
  }
  // quiescence: 120 ms of reading, more than the largest handler delay
  for (int k = 0; k < 120; ++k) { t += 1000000; tl.at(t, [] { sim::fault_scope(0, 0); client_read_all(); }); }
  t += 1000000;
  tl.at(t, [] { W.loop->runInLoop([] { W.loop->exitLoop(); }, "c12.exit"); });
  tl.install();
  W.loop->runLoop(Loop::Mode::kForever);
  sim::set_prewait_hook(nullptr);
  client_read_all();
  Delivery d;
  d.handled = W.handled; d.rx = W.rx; d.server_eof = W.server_eof; d.client_closed = W.client_closed;
  delete W.server;
  delete W.tp;
  delete W.loop;
  if (W.cfd >= 0 && !W.client_closed) close(W.cfd);
  return d;
}

bool parse_responses(const std::string &rx, std::vector<std::string> &bodies, std::string &err);

// two connections one after the other (see generate): returns what the second connection received
Delivery deliver_two(const sim::Plan &plan, const std::string &stream, std::vector<Truth> &truth, size_t k) {
  W = World();
  W.truth = &truth;
  W.loop = Loop::New(plan.get("backend") ? "select" : "epoll");
  W.tp = new eventx::TimerPool(W.loop);
  W.server = new Server(W.loop);
  W.path = std::string(sim::run_dir()) + "/h2.sock";
  if (!W.server->initialize(network::SockAddr::FromString(W.path), 4)) { fprintf(stderr, "http init failed\n"); _exit(3); }
  W.gate = plan.get("gate") != 0;
  if (W.gate) W.server->use(gate);
  W.server->use(handler);
  W.server->start();
  static drv::Timeline tl;
  tl = drv::Timeline();
  static std::string S; S = stream;
  size_t split = truth[k - 1].end_off;
  auto connect_client = [] {
    int fd = socket(AF_UNIX, SOCK_STREAM, 0);
    struct sockaddr_un sa; memset(&sa, 0, sizeof sa); sa.sun_family = AF_UNIX;
    strncpy(sa.sun_path, W.path.c_str(), sizeof(sa.sun_path) - 1);
    if (sim::raw::connect(fd, (struct sockaddr *)&sa, sizeof sa) != 0) { perror("connect"); _exit(3); }
    int fl = fcntl(fd, F_GETFL); fcntl(fd, F_SETFL, fl | O_NONBLOCK);
    W.cfd = fd;
  };
  auto send_range = [](size_t a, size_t b) {
    size_t done = a;
    while (done < b) { ssize_t w = sim::raw::send(W.cfd, S.data() + done, b - done, MSG_NOSIGNAL); if (w <= 0) break; done += (size_t)w; }
    sim::trace("client: sent %zu..%zu (%zu)", a, b, done - a);
  };
  int64_t t = sim::now_ns();
  tl.at(t, [connect_client] { sim::fault_scope(0, 0); connect_client(); });
  t += 1000000; tl.at(t, [send_range, split] { send_range(0, split); });
  t += 1000000; tl.at(t, [] { close(W.cfd); W.cfd = -1; sim::trace("client: first connection hangs up"); });
  t += 1000000; tl.at(t, [connect_client] { connect_client(); W.rx.clear(); W.server_eof = false; });
  t += 1000000; tl.at(t, [send_range, split] { send_range(split, S.size()); });
  for (int i = 0; i < 120; ++i) { t += 1000000; tl.at(t, [] { client_read_all(); }); }
  t += 1000000;
  tl.at(t, [] { W.loop->runInLoop([] { W.loop->exitLoop(); }, "c12.exit"); });
  tl.install();
  W.loop->runLoop(Loop::Mode::kForever);
  sim::set_prewait_hook(nullptr);
  client_read_all();
  Delivery d;
  d.handled = W.handled; d.rx = W.rx; d.server_eof = W.server_eof; d.client_closed = false;
  delete W.server;
  delete W.tp;
  delete W.loop;
  if (W.cfd >= 0) close(W.cfd);
  return d;
}

void check_second_connection(const Delivery &d, const std::vector<Truth> &truth, size_t k) {
  int close_idx = -1;
  for (size_t i = k; i < truth.size(); ++i) if (truth[i].closing) { close_idx = (int)i; break; }
  size_t expect_end = close_idx >= 0 ? (size_t)close_idx + 1 : truth.size();
  if (d.handled.size() < expect_end) { sim::violation("C12/request-not-delivered", sim::fmt("two connections: %zu requests reached the handler, %zu were sent before and on the second connection", d.handled.size(), expect_end)); return; }
  std::vector<std::string> bodies; std::string err;
  if (!parse_responses(d.rx, bodies, err)) { sim::violation("C12/response-stream-malformed", sim::fmt("second connection: %s", err.c_str())); return; }
  for (size_t i = 0; i < bodies.size(); ++i) {
    std::string want = "R" + std::to_string(k + i) + ";";
    if (bodies[i] != want) { sim::violation("C12/response-order", sim::fmt("second connection: response #%zu on the wire is '%s', expected '%s' (a response belongs on the connection its request came from)", i, bodies[i].substr(0, 20).c_str(), want.c_str())); return; }
  }
  if (bodies.size() < expect_end - k) { sim::violation("C12/response-missing", sim::fmt("second connection: %zu of %zu responses were written by the time the run was quiescent", bodies.size(), expect_end - k)); return; }
  if (bodies.size() > expect_end - k) { sim::violation("C12/response-after-close", "second connection: more responses than requests up to the closing one"); return; }
  if (close_idx >= 0 && !d.server_eof) sim::violation("C12/connection-not-closed", "second connection: the response to the closing request was sent but the server did not close the connection");
}

// parse the concatenated responses; returns bodies; `trailing` = bytes that do not form a complete response
bool parse_responses(const std::string &rx, std::vector<std::string> &bodies, std::string &err) {
  size_t pos = 0;
  while (pos < rx.size()) {
    size_t he = rx.find("\r\n\r\n", pos);
    if (he == std::string::npos) { err = "incomplete response head at the end of the stream"; return false; }
    std::string head = rx.substr(pos, he - pos);
    if (head.compare(0, 9, "HTTP/1.1 ") != 0) { err = "response does not start with a status line"; return false; }
    size_t cl = head.find("Content-Length: ");
    if (cl == std::string::npos) { err = "response without Content-Length"; return false; }
    long n = atol(head.c_str() + cl + 16);
    if (rx.size() - (he + 4) < (size_t)n) { err = "truncated response body"; return false; }
    bodies.push_back(rx.substr(he + 4, (size_t)n));
    pos = he + 4 + (size_t)n;
  }
  return true;
}

void check_delivery(const char *name, const Delivery &d, const std::vector<Truth> &truth) {
  int close_idx = -1;
  for (size_t i = 0; i < truth.size(); ++i) if (truth[i].closing) { close_idx = (int)i; break; }
  size_t expect = close_idx >= 0 ? (size_t)close_idx + 1 : truth.size();
  // requests seen by the handler (prefix up to the closing request is what the property speaks about)
  for (size_t i = 0; i < expect; ++i) {
    if (i >= d.handled.size()) {
      sim::violation("C12/request-not-delivered", sim::fmt("%s delivery: request #%zu of %zu well-formed requests never reached the handler", name, i, expect));
      return;
    }
    if (d.handled[i] != truth[i].canon) {
      sim::violation("C12/request-differs", sim::fmt("%s delivery: request #%zu seen by the handler differs from the request that was sent", name, i));
      return;
    }
  }
  std::vector<std::string> bodies; std::string err;
  if (!parse_responses(d.rx, bodies, err)) { sim::violation("C12/response-stream-malformed", sim::fmt("%s delivery: %s", name, err.c_str())); return; }
  for (size_t i = 0; i < bodies.size(); ++i) {
    std::string want = "R" + std::to_string(i) + ";";
    if (bodies[i] != want) {
      sim::violation("C12/response-order", sim::fmt("%s delivery: response #%zu on the wire is '%s', expected '%s' (responses must appear once each, in request order)", name, i, bodies[i].substr(0, 20).c_str(), want.c_str()));
      return;
    }
  }
  if (bodies.size() < expect) { sim::violation("C12/response-missing", sim::fmt("%s delivery: %zu of %zu responses were written by the time the run was quiescent", name, bodies.size(), expect)); return; }
  if (bodies.size() > expect) { sim::violation("C12/response-after-close", sim::fmt("%s delivery: %zu responses on the wire although the request #%d asked for the connection to be closed", name, bodies.size(), close_idx)); return; }
  if (close_idx >= 0 && !d.server_eof) sim::violation("C12/connection-not-closed", sim::fmt("%s delivery: the response to the closing request was sent but the server did not close the connection", name));
  if (close_idx < 0 && d.server_eof) sim::violation("C12/connection-closed-unexpectedly", sim::fmt("%s delivery: the server closed a persistent connection", name));
}

// the request parser on its own, fed like the server feeds it: it never claims more than it was given, and a well-formed
// stream gives the same requests however it is cut
std::vector<std::string> direct_parse(const std::string &stream, const std::vector<long> &segs, bool &failed) {
  std::vector<std::string> out; failed = false;
  server::RequestParser parser;
  std::string buf; size_t off = 0, si = 0; int guard = 0;
  while ((off < stream.size() || !buf.empty()) && guard++ < 200000) {
    if (off < stream.size()) { size_t n = segs.empty() ? stream.size() - off : std::min<size_t>(stream.size() - off, (size_t)std::max(1L, segs[si++ % segs.size()])); buf.append(stream, off, n); off += n; }
    bool progressed = false;
    while (!buf.empty()) {
      size_t r = parser.parse(buf.data(), buf.size());
      if (r > buf.size()) { sim::violation("C12/parser-consumed-more-than-given", sim::fmt("RequestParser::parse() was given %zu bytes and reports %zu consumed", buf.size(), r)); failed = true; return out; }
      buf.erase(0, r);
      if (r) progressed = true;
      if (parser.state() == server::RequestParser::State::kFinishedAll) { Request *q = parser.getRequest(); if (q) { out.push_back(q->toString()); delete q; } progressed = true; }
      else if (parser.state() == server::RequestParser::State::kFail) { failed = true; return out; }
      else break;
    }
    if (off >= stream.size() && !progressed) break;
  }
  return out;
}

void execute(const sim::Plan &plan) {
  sim::start(plan);
  sim::name_thread("loop");
  sim::fault_all_sockets(true);
  sim::fault_late_max_ms(10);
  sim::set_deadlock_handler([](const sim::DeadlockInfo &info) { sim::violation("C12/loop-never-wakes", "the loop blocks for ever before the end of the plan: " + info.summary); });
  sim::set_stepcap_handler([] { sim::violation("C12/livelock", "the server spins without progress (step cap)"); });
  std::vector<Truth> truth;
  std::string stream = build_stream(plan, truth);
  bool hostile = plan.get("hostile") != 0;
  long cut = -1;
  if (hostile) {
    for (const sim::Op &op : plan.ops) {
      if (op.kind == "tgt") {
        static const char *const T[] = {"/100%\xe4\xb8\xad", "/a%", "/a%4", "/a%zz", "/a%\xff\xff", "/%00", "/a?x=%\x80\x80", "/a;p=%\xfe1", "/a#%\xc0\xc0", "/a?%\xe4=1",
                                        "/a%4\xff", "/%\x80", "/a?k=%", "/a?k=%1", "/a%%%", "/a?x=%f\xff&y=%\xff" "f"};
        stream = std::string("GET ") + T[((op.arg(0) % 16) + 16) % 16] + " HTTP/1.1\r\nContent-Length: 0\r\n\r\n" + stream;
        sim::probe("hostile_targets");
      }
      else if (op.kind == "biglen") {
        // a request whose Content-Length is a number around and beyond what size_t / unsigned long long hold, behind the stream
        static const char *const V[] = {"99999999999999999999", "18446744073709551616", "18446744073709551615", "9223372036854775808", "100000000000000000000", "000000000000000000001", "1844674407370955161599", "-1"};
        stream += std::string("POST /big HTTP/1.1\r\nContent-Length: ") + V[((op.arg(0) % 8) + 8) % 8] + "\r\n\r\nxyz";
        sim::probe("huge_content_length");
      }
      else if (op.kind == "mut" && !stream.empty()) stream[(size_t)(std::max(0L, op.arg(0)) % (long)stream.size())] = (char)(op.arg(1) & 0xff);
      else if (op.kind == "junk") { sim::Rng jr((uint64_t)op.arg(1) + 77); long n = std::max(1L, std::min(2000L, op.arg(0))); for (long i = 0; i < n; ++i) stream.push_back((char)jr.below(256)); }
      else if (op.kind == "cut") cut = std::max(0L, op.arg(0));
    }
  }
  {
    std::vector<long> segs; for (const sim::Op &op : plan.ops) if (op.kind == "seg") segs.push_back(std::max(1L, op.arg(0)));
    std::string st = cut >= 0 ? stream.substr(0, std::min<size_t>(stream.size(), (size_t)cut)) : stream;
    bool f0 = false, f1 = false;
    std::vector<std::string> a = direct_parse(st, std::vector<long>(), f0), b = direct_parse(st, segs, f1);
    if (!hostile && sim::violation_count() == 0) {
      if (f0 || f1) sim::violation("C12/request-not-delivered", sim::fmt("RequestParser on its own: a well-formed stream made the parser fail (%s)", f0 ? "unsegmented" : "segmented"));
      else if (a != b) { size_t i = 0; while (i < a.size() && i < b.size() && a[i] == b[i]) ++i; sim::violation("C12/segmentation-changes-requests", sim::fmt("RequestParser on its own: the unsegmented stream yields %zu requests, the segmented one %zu; first difference at request #%zu", a.size(), b.size(), i)); }
      else if (a.size() != truth.size()) sim::violation("C12/request-not-delivered", sim::fmt("RequestParser on its own: %zu well-formed requests were sent, %zu were parsed", truth.size(), a.size()));
    }
    sim::probe("direct_parser_requests", (long)a.size());
  }
  Delivery whole = deliver(plan, stream, truth, false, cut);
  size_t v0 = sim::violation_count();
  Delivery seg = deliver(plan, stream, truth, true, cut);
  if (!hostile) {
    check_delivery("unsegmented", whole, truth);
    size_t v1 = sim::violation_count();
    check_delivery("segmented", seg, truth);
    if (v1 == v0 && sim::violation_count() > v1) sim::probe("segmentation_dependent", 1);
  }
  if (!hostile && sim::violation_count() == 0 && plan.get("reconn") > 0) {
    size_t k = (size_t)std::min<long>((long)truth.size() - 1, plan.get("reconn"));
    bool closing_in_first = false; for (size_t i = 0; i < k; ++i) if (truth[i].closing) closing_in_first = true;
    if (k >= 1 && !closing_in_first) { Delivery two = deliver_two(plan, stream, truth, k); check_second_connection(two, truth, k); sim::probe("two_connection_runs"); }
  }
  sim::probe("requests_handled", (long)(whole.handled.size() + seg.handled.size()));
  sim::finish();
}

const sim::Harness H = {"C12", "c12_http", generate, execute};
}  // namespace

int main(int argc, char **argv) { return sim::harness_main(argc, argv, H); }
