// C11 — module tree life cycle: nested, ordered, balanced hooks under every assignment of hook failures.
// The only nondeterminism is the fault plan (which user hooks fail) and the sequence of calls on the root;
// there is no schedule or clock in this property (DESIGN.md §7 C11).
#include <sim.h>

#include <tbox/base/json.hpp>
#include <tbox/main/module.h>
#include <tbox/main/context.h>

#include <algorithm>
#include <map>
#include <set>
#include <string>
#include <vector>

using namespace tbox;
using namespace tbox::main;

namespace {

enum Hook { K_INIT = 0, K_START, K_STOP, K_CLEANUP };
static const char *HN[] = {"onInit", "onStart", "onStop", "onCleanup"};

// ops:  node <parent (-1 root)> <required> <named> <fail_init> <fail_start>      (node 0 is the root; parents precede children)
//       call <0 initialize,1 start,2 stop,3 cleanup>
void generate(sim::Rng &r, uint64_t seed, const std::string &tier, sim::Plan &p) {
  bool thorough = tier == "thorough";
  int n = (int)r.range(1, thorough ? 15 : 10);
  unsigned fail_rate = (unsigned)r.pick((const long[]){0, 100, 250, 400});
  std::vector<int> depth;
  for (int i = 0; i < n; ++i) {
    sim::Op op; op.kind = "node";
    long parent = -1;
    if (i > 0) { do { parent = (long)r.below((uint64_t)i); } while (depth[(size_t)parent] >= 3); }
    depth.push_back(i == 0 ? 0 : depth[(size_t)parent] + 1);
    op.a = {parent, r.chance(650) ? 1 : 0, r.chance(700) ? 1 : 0, (i > 0 || r.chance(300)) && r.chance(fail_rate) ? 1 : 0, r.chance(fail_rate) ? 1 : 0};
    p.ops.push_back(op);
  }
  int nc = (int)r.range(1, 10);
  // mostly the natural order, sometimes repeated / out of order calls
  static const long natural[] = {0, 1, 2, 3};
  for (int i = 0; i < nc; ++i) { sim::Op op; op.kind = "call"; op.a = {r.chance(650) ? natural[i % 4] : (long)r.below(4)}; p.ops.push_back(op); }
  p.sched.strategy = "none";
}

struct Ev { int hook; int node; bool ok; };
std::vector<Ev> g_trace;

struct NodeSpec { int parent = -1; bool required = true, named = true, fail_init = false, fail_start = false; std::vector<int> children; };
std::vector<NodeSpec> g_spec;

class StubContext : public Context {
  public:
    event::Loop *loop() const override { return nullptr; }
    eventx::ThreadPool *thread_pool() const override { return nullptr; }
    eventx::TimerPool *timer_pool() const override { return nullptr; }
    eventx::Async *async() const override { return nullptr; }
    terminal::TerminalNodes *terminal() const override { return nullptr; }
    coroutine::Scheduler *coroutine() const override { return nullptr; }
    std::chrono::milliseconds running_time() const override { return std::chrono::milliseconds(0); }
    std::chrono::system_clock::time_point start_time_point() const override { return std::chrono::system_clock::time_point(); }
};

class Probe : public Module {
  public:
    Probe(int id, const std::string &name, Context &ctx) : Module(name, ctx), id_(id) {}
  protected:
    bool onInit(const Json &) override { bool ok = !g_spec[(size_t)id_].fail_init; g_trace.push_back(Ev{K_INIT, id_, ok}); sim::trace("onInit n%d -> %d", id_, (int)ok); return ok; }
    bool onStart() override { bool ok = !g_spec[(size_t)id_].fail_start; g_trace.push_back(Ev{K_START, id_, ok}); sim::trace("onStart n%d -> %d", id_, (int)ok); return ok; }
    void onStop() override { g_trace.push_back(Ev{K_STOP, id_, true}); sim::trace("onStop n%d", id_); }
    void onCleanup() override { g_trace.push_back(Ev{K_CLEANUP, id_, true}); sim::trace("onCleanup n%d", id_); }
  private:
    int id_;
};

// expected attempt order of a pre-order pass with early return on a failing required child
// returns overall success; `attempted` in order; `succeeded` = nodes whose hook returned success
bool expect_pass(int n, bool init_pass, const std::set<int> &eligible, std::vector<int> &attempted, std::set<int> &succeeded) {
  if (!eligible.count(n)) return false;
  attempted.push_back(n);
  bool fail = init_pass ? g_spec[(size_t)n].fail_init : g_spec[(size_t)n].fail_start;
  if (fail) return false;
  succeeded.insert(n);
  for (int c : g_spec[(size_t)n].children) {
    bool ok = expect_pass(c, init_pass, eligible, attempted, succeeded);
    if (!ok && g_spec[(size_t)c].required) return false;
  }
  return true;
}

bool is_ancestor(int a, int n) { for (int p = g_spec[(size_t)n].parent; p >= 0; p = g_spec[(size_t)p].parent) if (p == a) return true; return false; }

void execute(const sim::Plan &plan) {
  sim::start(plan);
  g_spec.clear(); g_trace.clear();
  for (const sim::Op &op : plan.ops) {
    if (op.kind != "node" || g_spec.size() >= 16) continue;
    NodeSpec s; int id = (int)g_spec.size();
    s.parent = id == 0 ? -1 : (int)(((op.arg(0) % id) + id) % id);
    s.required = op.arg(1) != 0; s.named = op.arg(2) != 0; s.fail_init = op.arg(3) != 0; s.fail_start = op.arg(4) != 0;
    g_spec.push_back(s);
    if (id > 0) g_spec[(size_t)s.parent].children.push_back(id);
  }
  if (g_spec.empty()) { g_spec.push_back(NodeSpec()); }
  StubContext ctx;
  std::vector<Probe *> mods(g_spec.size());
  for (size_t i = 0; i < g_spec.size(); ++i) mods[i] = new Probe((int)i, (i == 0 || !g_spec[i].named) ? "" : "m" + std::to_string(i), ctx);
  // unnamed siblings would collide on the empty name: give every unnamed non-root child a distinct parent-level uniqueness through add() failing — avoid: at most one unnamed child per parent
  {
    std::map<int, int> unnamed_seen;
    for (size_t i = 1; i < g_spec.size(); ++i) {
      bool named = g_spec[i].named;
      if (!named && unnamed_seen[g_spec[i].parent]++) { named = true; g_spec[i].named = true; delete mods[i]; mods[i] = new Probe((int)i, "m" + std::to_string(i), ctx); }
    }
  }
  for (size_t i = 1; i < g_spec.size(); ++i) {
    if (!mods[(size_t)g_spec[i].parent]->add(mods[i], g_spec[i].required)) { sim::violation("C11/add-rejected", "add() rejected a child with a unique name"); return; }
  }
  Probe *root = mods[0];
  Json js;
  root->fillDefaultConfig(js);

  std::set<int> all; for (size_t i = 0; i < g_spec.size(); ++i) all.insert((int)i);
  std::set<int> inited, running;        // model: nodes with a successful init / start that is still owed a cleanup / stop
  int S = 0;                            // model of the root: 0 none, 1 inited, 2 running
  auto check_reverse_order = [&](size_t from, const char *when) {
    // stop/cleanup: children before parents, later siblings before earlier ones; init/start: the opposite
    for (size_t i = from; i < g_trace.size(); ++i) for (size_t j = i + 1; j < g_trace.size(); ++j) {
      const Ev &a = g_trace[i], &b = g_trace[j];
      if (a.hook != b.hook) continue;
      bool forward = a.hook == K_INIT || a.hook == K_START;
      if (forward) {
        if (is_ancestor(b.node, a.node)) sim::violation("C11/nesting-order", sim::fmt("%s: %s of n%d ran before %s of its ancestor n%d", when, HN[a.hook], a.node, HN[a.hook], b.node));
        if (g_spec[(size_t)a.node].parent == g_spec[(size_t)b.node].parent && a.node > b.node) sim::violation("C11/sibling-order", sim::fmt("%s: %s of sibling n%d ran before n%d (registration order is required)", when, HN[a.hook], a.node, b.node));
      } else {
        // the reverse-order rule is about modules that were both up when the tear-down began: if b's own init/start
        // happened after a's tear-down (a rolled back inside an earlier, failed sub-pass) the pair is not comparable
        int fwd = a.hook == K_STOP ? K_START : K_INIT;
        bool b_up_after_a = false;
        for (size_t k = i + 1; k < j; ++k) if (g_trace[k].hook == fwd && g_trace[k].node == b.node) b_up_after_a = true;
        if (b_up_after_a) continue;
        if (is_ancestor(a.node, b.node)) sim::violation("C11/nesting-order", sim::fmt("%s: %s of n%d ran before %s of its descendant n%d", when, HN[a.hook], a.node, HN[a.hook], b.node));
        if (g_spec[(size_t)a.node].parent == g_spec[(size_t)b.node].parent && a.node < b.node) sim::violation("C11/sibling-order", sim::fmt("%s: %s of sibling n%d ran before n%d (reverse registration order is required)", when, HN[a.hook], a.node, b.node));
      }
    }
  };
  // account for every hook call since `from`: preconditions and balance
  auto account = [&](size_t from, const char *when) {
    for (size_t i = from; i < g_trace.size(); ++i) {
      const Ev &e = g_trace[i];
      switch (e.hook) {
        case K_INIT: if (inited.count(e.node)) sim::violation("C11/init-twice", sim::fmt("%s: onInit of n%d called while a previous successful init has not been cleaned up", when, e.node)); if (e.ok) inited.insert(e.node); break;
        case K_START: if (!inited.count(e.node)) sim::violation("C11/start-without-init", sim::fmt("%s: onStart of n%d called without a successful onInit", when, e.node)); if (running.count(e.node)) sim::violation("C11/start-twice", sim::fmt("%s: onStart of n%d called while it is started", when, e.node)); if (e.ok) running.insert(e.node); break;
        case K_STOP: if (!running.count(e.node)) sim::violation("C11/stop-without-start", sim::fmt("%s: onStop of n%d called although it is not started", when, e.node)); running.erase(e.node); break;
        case K_CLEANUP: if (!inited.count(e.node)) sim::violation("C11/cleanup-without-init", sim::fmt("%s: onCleanup of n%d called without a successful onInit owed a cleanup", when, e.node)); if (running.count(e.node)) sim::violation("C11/cleanup-before-stop", sim::fmt("%s: onCleanup of n%d called while it is still started", when, e.node)); inited.erase(e.node); break;
      }
    }
  };
  auto expect_balanced_none = [&](const char *when) {
    if (!running.empty()) sim::violation("C11/start-without-stop", sim::fmt("%s: onStart of n%d succeeded but onStop was never called (tree cleaned up)", when, *running.begin()));
    else if (!inited.empty()) sim::violation("C11/init-without-cleanup", sim::fmt("%s: onInit of n%d succeeded but onCleanup was never called (tree cleaned up)", when, *inited.begin()));
  };

  for (const sim::Op &op : plan.ops) {
    if (op.kind != "call") continue;
    if (sim::violation_count()) break;
    long c = ((op.arg(0) % 4) + 4) % 4;
    size_t from = g_trace.size();
    sim::relevant();
    if (c == 0) {
      bool r = root->initialize(js);
      std::vector<int> att; std::set<int> suc;
      bool want = S == 0 ? expect_pass(0, true, all, att, suc) : false;
      if (S != 0) att.clear();
      std::vector<int> got; for (size_t i = from; i < g_trace.size(); ++i) if (g_trace[i].hook == K_INIT) got.push_back(g_trace[i].node);
      if (r != want) sim::violation("C11/initialize-result", sim::fmt("initialize() returned %d, expected %d", (int)r, (int)want));
      else if (got != att) sim::violation("C11/init-set", sim::fmt("initialize(): onInit was attempted on %zu modules, the pre-order walk with early return on a failing required child (and none for a failing optional one) attempts %zu", got.size(), att.size()));
      check_reverse_order(from, "initialize()");
      account(from, "initialize()");
      if (r) S = 1;
      else if (S == 0) {
        // a failed initialize(): the user cleans up; afterwards every successful init must have had its cleanup
        size_t f2 = g_trace.size();
        root->cleanup();
        check_reverse_order(f2, "cleanup() after a failed initialize()");
        account(f2, "cleanup() after a failed initialize()");
        expect_balanced_none("after a failed initialize() followed by cleanup()");
      }
    } else if (c == 1) {
      bool r = root->start();
      std::vector<int> att; std::set<int> suc;
      std::set<int> elig = inited;
      bool want = S == 1 ? expect_pass(0, false, elig, att, suc) : false;
      if (S != 1) att.clear();
      std::vector<int> got; for (size_t i = from; i < g_trace.size(); ++i) if (g_trace[i].hook == K_START) got.push_back(g_trace[i].node);
      if (r != want) sim::violation("C11/start-result", sim::fmt("start() returned %d, expected %d", (int)r, (int)want));
      else if (got != att) sim::violation("C11/start-set", sim::fmt("start(): onStart was attempted on %zu modules, expected %zu", got.size(), att.size()));
      check_reverse_order(from, "start()");
      account(from, "start()");
      if (r) S = 2;
      else if (S == 1) {
        size_t f2 = g_trace.size();
        root->cleanup();
        check_reverse_order(f2, "cleanup() after a failed start()");
        account(f2, "cleanup() after a failed start()");
        expect_balanced_none("after a failed start() followed by cleanup()");
        S = 0;
      }
    } else if (c == 2) {
      std::set<int> want = S == 2 ? running : std::set<int>();
      root->stop();
      std::set<int> got; for (size_t i = from; i < g_trace.size(); ++i) { if (g_trace[i].hook == K_STOP) got.insert(g_trace[i].node); else sim::violation("C11/unexpected-hook", sim::fmt("stop() called %s", HN[g_trace[i].hook])); }
      if (got != want) sim::violation("C11/stop-set", sim::fmt("stop(): onStop ran on %zu modules, %zu are started", got.size(), want.size()));
      check_reverse_order(from, "stop()");
      account(from, "stop()");
      if (S == 2) S = 1;
    } else {
      root->cleanup();
      // the tear-down is the exact reverse of bring-up (all inits, then all starts): every stop precedes every cleanup
      { bool seen_cleanup = false; for (size_t i = from; i < g_trace.size(); ++i) { if (g_trace[i].hook == K_CLEANUP) seen_cleanup = true; else if (g_trace[i].hook == K_STOP && seen_cleanup) { sim::violation("C11/stop-after-cleanup-began", sim::fmt("cleanup() of a running tree: onStop of n%d ran after another module had already been cleaned up (stops must all precede cleanups, the reverse of init-then-start)", g_trace[i].node)); break; } } }
      check_reverse_order(from, "cleanup()");
      account(from, "cleanup()");
      expect_balanced_none("after cleanup()");
      S = 0;
    }
  }
  if (sim::violation_count() == 0) {
    size_t from = g_trace.size();
    root->cleanup();
    check_reverse_order(from, "final cleanup()");
    account(from, "final cleanup()");
    expect_balanced_none("after the final cleanup()");
    size_t f3 = g_trace.size();
    delete root;     // deletes the whole tree
    if (g_trace.size() != f3) sim::violation("C11/hook-during-destruction", "a user hook ran during destruction of a tree that had been cleaned up");
  }
  sim::probe("hooks", (long)g_trace.size());
  sim::finish();
}

const sim::Harness H = {"C11", "c11_modules", generate, execute};
}  // namespace

int main(int argc, char **argv) { return sim::harness_main(argc, argv, H); }
