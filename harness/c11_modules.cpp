// C11 — module tree life cycle: nested, ordered, balanced hooks under every assignment of hook failures.
// cfg part 0: calls on a bare main::Module tree (the only nondeterminism is the fault plan — which user hooks fail — and the
//             sequence of calls on the root); cfg nofinal=1 destroys the tree without a final cleanup().
// cfg part 1: the real tbox::main::Main() (run_in_frontend.cpp) runs on simulated thread 0 with the real ContextImp (loop, thread
//             pool, timer pool, terminal, watchdog thread); RegisterApps() builds the probe tree; a driver thread raises SIGINT
//             after cfg run_ms virtual milliseconds.  Threads mode, seeded schedule.
// cfg part 2: tbox::main::Start() / Stop() (run_in_backend.cpp): the loop runs on a thread of its own.
#include <sim.h>

#include <tbox/base/json.hpp>
#include <tbox/main/module.h>
#include <tbox/main/context.h>
#include <tbox/main/main.h>
#include <tbox/event/loop.h>
#include <tbox/event/timer_event.h>

#include <fcntl.h>
#include <signal.h>
#include <unistd.h>
#include <thread>

#include <algorithm>
#include <map>
#include <set>
#include <string>
#include <vector>

using namespace tbox;
using namespace tbox::main;

namespace {

enum Hook { K_INIT = 0, K_START, K_STOP, K_CLEANUP };
static const char *HN[] = {"onInit", "onStart", "onStop", "onCleanup"};

// ops:  node <parent (-1 root)> <required> <named> <fail_init> <fail_start> <how (0 add, 1 addAs with its own name, 2 addAs with a new name)> <nocfg>
//       (nocfg, part 0: the module's node is removed from the configuration after fillDefaultConfig(), as a user configuration with "name": null does)
//       readd <child> <other parent>     one more add() of a module that already has a parent (must be refused: the structure stays a tree)
//       (node 0 is the root; parents precede children)
//       call <0 initialize,1 start,2 stop,3 cleanup>                              (part 0 only)
void generate(sim::Rng &r, uint64_t seed, const std::string &tier, sim::Plan &p) {
  bool thorough = tier == "thorough";
  long part = r.chance(700) ? 0 : (r.chance(500) ? 1 : 2);
  p.cfg["part"] = part;
  int n = (int)r.range(1, thorough ? 15 : 10);
  unsigned fail_rate = (unsigned)r.pick((const long[]){0, 100, 250, 400});
  if (part != 0) fail_rate = (unsigned)r.pick((const long[]){0, 0, 60, 150, 300});
  std::vector<int> depth;
  for (int i = 0; i < n; ++i) {
    sim::Op op; op.kind = "node";
    long parent = -1;
    if (i > 0) { do { parent = (long)r.below((uint64_t)i); } while (depth[(size_t)parent] >= 3); }
    depth.push_back(i == 0 ? 0 : depth[(size_t)parent] + 1);
    op.a = {parent, r.chance(650) ? 1 : 0, r.chance(700) ? 1 : 0, (i > 0 || r.chance(300)) && r.chance(fail_rate) ? 1 : 0, r.chance(fail_rate) ? 1 : 0, r.chance(700) ? 0 : r.range(1, 2), (i > 0 && part == 0 && r.chance(60)) ? 1 : 0};
    p.ops.push_back(op);
  }
  if (n >= 3 && r.chance(200)) { sim::Op op; op.kind = "readd"; op.a = {r.range(1, n - 1), (long)r.below((uint64_t)n)}; p.ops.push_back(op); }
  if (part == 0) {
    int nc = (int)r.range(1, 10);
    // mostly the natural order, sometimes repeated / out of order calls
    static const long natural[] = {0, 1, 2, 3};
    for (int i = 0; i < nc; ++i) { sim::Op op; op.kind = "call"; op.a = {r.chance(650) ? natural[i % 4] : (long)r.below(4)}; p.ops.push_back(op); }
    p.cfg["nofinal"] = r.chance(250) ? 1 : 0;
    p.sched.strategy = "none";
  } else {
    p.cfg["run_ms"] = r.pick((const long[]){0, 1, 15, 40, 40, 120, 700});
    p.cfg["exit_wait"] = r.below(2);
    if (part == 2) p.cfg["cycles"] = r.chance(400) ? r.range(2, 3) : 1;
    if (r.chance(350)) p.cfg["fault_hup"] = 1;
    sim::draw_sched(seed, p);
  }
}

struct Ev { int hook; int node; bool ok; int tid; bool loop_running; };
std::vector<Ev> g_trace;

struct NodeSpec { int parent = -1; bool required = true, named = true, fail_init = false, fail_start = false, nocfg = false; int how = 0; std::vector<int> children; };
std::vector<std::pair<int, int>> g_readd;
std::vector<NodeSpec> g_spec;

// Main()/Start() mode
bool g_main_mode = false;
std::vector<long> g_ticks;
std::vector<event::TimerEvent *> g_timers;

class StubContext : public Context {
  public:
    event::Loop *loop() const override { return nullptr; }
    eventx::ThreadPool *thread_pool() const override { return nullptr; }
    eventx::TimerPool *timer_pool() const override { return nullptr; }
    eventx::Async *async() const override { return nullptr; }
    terminal::TerminalNodes *terminal() const override { return nullptr; }
    coroutine::Scheduler *coroutine() const override { return nullptr; }
    std::chrono::milliseconds running_time() const override { return std::chrono::milliseconds(0); }
    std::chrono::system_clock::time_point start_time_point() const override { return std::chrono::system_clock::time_point(); }
};

class Probe : public Module {
  public:
    Probe(int id, const std::string &name, Context &ctx) : Module(name, ctx), id_(id) {}
  protected:
    void rec(int hook, bool ok) {
      bool lr = g_main_mode && ctx().loop() && ctx().loop()->isRunning();
      g_trace.push_back(Ev{hook, id_, ok, sim::self(), lr});
      sim::trace("%s n%d -> %d (T%d)", HN[hook], id_, (int)ok, sim::self());
      sim::relevant();
    }
    bool onInit(const Json &) override { bool ok = !g_spec[(size_t)id_].fail_init; rec(K_INIT, ok); return ok; }
    bool onStart() override {
      bool ok = !g_spec[(size_t)id_].fail_start; rec(K_START, ok);
      if (ok && g_main_mode && !g_timers[(size_t)id_]) {
        // a started module does something periodic on the context's loop: "running"
        int id = id_;
        auto *t = ctx().loop()->newTimerEvent("c11.tick");
        t->initialize(std::chrono::milliseconds(10), event::Event::Mode::kPersist);
        t->setCallback([id] { ++g_ticks[(size_t)id]; });
        t->enable();
        g_timers[(size_t)id_] = t;
      }
      return ok;
    }
    void onStop() override { rec(K_STOP, true); if (g_main_mode && g_timers[(size_t)id_]) { delete g_timers[(size_t)id_]; g_timers[(size_t)id_] = nullptr; } }
    void onCleanup() override { rec(K_CLEANUP, true); }
  private:
    int id_;
};

// expected attempt order of a pre-order pass with early return on a failing required child
// returns overall success; `attempted` in order; `succeeded` = nodes whose hook returned success
bool expect_pass(int n, bool init_pass, const std::set<int> &eligible, std::vector<int> &attempted, std::set<int> &succeeded) {
  if (!eligible.count(n)) return false;
  if (init_pass && g_spec[(size_t)n].nocfg) return false;      // no configuration node: refused before its onInit
  attempted.push_back(n);
  bool fail = init_pass ? g_spec[(size_t)n].fail_init : g_spec[(size_t)n].fail_start;
  if (fail) return false;
  succeeded.insert(n);
  for (int c : g_spec[(size_t)n].children) {
    bool ok = expect_pass(c, init_pass, eligible, attempted, succeeded);
    if (!ok && g_spec[(size_t)c].required) return false;
  }
  return true;
}

// the modules that are up after a pass: a failing required child rolls its earlier siblings and its parent back
void down_subtree(int n, std::set<int> &up) { up.erase(n); for (int c : g_spec[(size_t)n].children) down_subtree(c, up); }
bool up_pass(int n, bool init_pass, const std::set<int> &eligible, std::set<int> &up) {
  if (!eligible.count(n)) return false;
  if (init_pass && g_spec[(size_t)n].nocfg) return false;
  if (init_pass ? g_spec[(size_t)n].fail_init : g_spec[(size_t)n].fail_start) return false;
  up.insert(n);
  const std::vector<int> &ch = g_spec[(size_t)n].children;
  for (size_t i = 0; i < ch.size(); ++i) {
    if (!up_pass(ch[i], init_pass, eligible, up) && g_spec[(size_t)ch[i]].required) { for (size_t j = 0; j < i; ++j) down_subtree(ch[j], up); up.erase(n); return false; }
  }
  return true;
}

bool is_ancestor(int a, int n) { for (int p = g_spec[(size_t)n].parent; p >= 0; p = g_spec[(size_t)p].parent) if (p == a) return true; return false; }

// book-keeping shared by all parts
struct Oracle {
  std::set<int> inited, running;        // model: nodes with a successful init / start that is still owed a cleanup / stop
  void check_reverse_order(size_t from, const char *when) {
    // stop/cleanup: children before parents, later siblings before earlier ones; init/start: the opposite
    for (size_t i = from; i < g_trace.size(); ++i) for (size_t j = i + 1; j < g_trace.size(); ++j) {
      const Ev &a = g_trace[i], &b = g_trace[j];
      if (a.hook != b.hook) continue;
      bool forward = a.hook == K_INIT || a.hook == K_START;
      if (forward) {
        if (is_ancestor(b.node, a.node)) sim::violation("C11/nesting-order", sim::fmt("%s: %s of n%d ran before %s of its ancestor n%d", when, HN[a.hook], a.node, HN[a.hook], b.node));
        if (g_spec[(size_t)a.node].parent == g_spec[(size_t)b.node].parent && a.node > b.node) sim::violation("C11/sibling-order", sim::fmt("%s: %s of sibling n%d ran before n%d (registration order is required)", when, HN[a.hook], a.node, b.node));
      } else {
        // the reverse-order rule is about modules that were both up when the tear-down began: if b's own init/start
        // happened after a's tear-down (a rolled back inside an earlier, failed sub-pass) the pair is not comparable
        int fwd = a.hook == K_STOP ? K_START : K_INIT;
        bool b_up_after_a = false;
        for (size_t k = i + 1; k < j; ++k) if (g_trace[k].hook == fwd && g_trace[k].node == b.node) b_up_after_a = true;
        if (b_up_after_a) continue;
        if (is_ancestor(a.node, b.node)) sim::violation("C11/nesting-order", sim::fmt("%s: %s of n%d ran before %s of its descendant n%d", when, HN[a.hook], a.node, HN[a.hook], b.node));
        if (g_spec[(size_t)a.node].parent == g_spec[(size_t)b.node].parent && a.node < b.node) sim::violation("C11/sibling-order", sim::fmt("%s: %s of sibling n%d ran before n%d (reverse registration order is required)", when, HN[a.hook], a.node, b.node));
      }
    }
  }
  // account for every hook call since `from`: preconditions and balance
  void account(size_t from, const char *when) {
    for (size_t i = from; i < g_trace.size(); ++i) {
      const Ev &e = g_trace[i];
      switch (e.hook) {
        case K_INIT: if (inited.count(e.node)) sim::violation("C11/init-twice", sim::fmt("%s: onInit of n%d called while a previous successful init has not been cleaned up", when, e.node)); if (e.ok) inited.insert(e.node); break;
        case K_START: if (!inited.count(e.node)) sim::violation("C11/start-without-init", sim::fmt("%s: onStart of n%d called without a successful onInit", when, e.node)); if (running.count(e.node)) sim::violation("C11/start-twice", sim::fmt("%s: onStart of n%d called while it is started", when, e.node)); if (e.ok) running.insert(e.node); break;
        case K_STOP: if (!running.count(e.node)) sim::violation("C11/stop-without-start", sim::fmt("%s: onStop of n%d called although it is not started", when, e.node)); running.erase(e.node); break;
        case K_CLEANUP: if (!inited.count(e.node)) sim::violation("C11/cleanup-without-init", sim::fmt("%s: onCleanup of n%d called without a successful onInit owed a cleanup", when, e.node)); if (running.count(e.node)) sim::violation("C11/cleanup-before-stop", sim::fmt("%s: onCleanup of n%d called while it is still started", when, e.node)); inited.erase(e.node); break;
      }
    }
  }
  void expect_balanced_none(const char *when, int except = -1) {
    for (int n : running) if (n != except) { sim::violation("C11/start-without-stop", sim::fmt("%s: onStart of n%d succeeded but onStop was never called (tree cleaned up)", when, n)); return; }
    for (int n : inited) if (n != except) { sim::violation("C11/init-without-cleanup", sim::fmt("%s: onInit of n%d succeeded but onCleanup was never called (tree cleaned up)", when, n)); return; }
  }
  void stops_before_cleanups(size_t from, const char *when) {
    bool seen_cleanup = false;
    for (size_t i = from; i < g_trace.size(); ++i) {
      if (g_trace[i].hook == K_CLEANUP) seen_cleanup = true;
      else if (g_trace[i].hook == K_STOP && seen_cleanup) { sim::violation("C11/stop-after-cleanup-began", sim::fmt("%s of a running tree: onStop of n%d ran after another module had already been cleaned up (stops must all precede cleanups, the reverse of init-then-start)", when, g_trace[i].node)); break; }
    }
  }
};

void load_spec(const sim::Plan &plan) {
  g_spec.clear(); g_trace.clear(); g_readd.clear();
  for (const sim::Op &op : plan.ops) if (op.kind == "readd") g_readd.push_back({(int)op.arg(0), (int)op.arg(1)});
  for (const sim::Op &op : plan.ops) {
    if (op.kind != "node" || g_spec.size() >= 16) continue;
    NodeSpec s; int id = (int)g_spec.size();
    s.parent = id == 0 ? -1 : (int)(((op.arg(0) % id) + id) % id);
    s.required = op.arg(1) != 0; s.named = op.arg(2) != 0; s.fail_init = op.arg(3) != 0; s.fail_start = op.arg(4) != 0; s.how = (int)(((op.arg(5) % 3) + 3) % 3); s.nocfg = id > 0 && op.arg(6) != 0 && plan.get("part") == 0;
    g_spec.push_back(s);
    if (id > 0) g_spec[(size_t)s.parent].children.push_back(id);
  }
  if (g_spec.empty()) { g_spec.push_back(NodeSpec()); }
  // unnamed siblings would collide on the empty name: at most one unnamed child per parent
  std::map<int, int> unnamed_seen;
  for (size_t i = 1; i < g_spec.size(); ++i) if (!g_spec[i].named && unnamed_seen[g_spec[i].parent]++) g_spec[i].named = true;
  for (size_t i = 1; i < g_spec.size(); ++i) if (!g_spec[i].named && g_spec[i].how != 2) g_spec[i].nocfg = false;   // an unnamed module has no node of its own
}

// builds the probe tree; returns the probe of node 0 (which owns the others once they are added)
Probe *build_tree(Context &ctx, bool root_named) {
  std::vector<Probe *> mods(g_spec.size());
  for (size_t i = 0; i < g_spec.size(); ++i) mods[i] = new Probe((int)i, ((i == 0 && !root_named) || (i > 0 && !g_spec[i].named)) ? "" : "m" + std::to_string(i), ctx);
  for (size_t i = 1; i < g_spec.size(); ++i) {
    Probe *par = mods[(size_t)g_spec[i].parent];
    bool ok;
    if (g_spec[i].how == 0) ok = par->add(mods[i], g_spec[i].required);
    else if (g_spec[i].how == 1) ok = par->addAs(mods[i], mods[i]->name(), g_spec[i].required);
    else ok = par->addAs(mods[i], "r" + std::to_string(i), g_spec[i].required);
    if (!ok) { sim::violation("C11/add-rejected", "add()/addAs() rejected a child with a unique name"); break; }
  }
  // a module that already has a parent is offered to another module: whatever add() answers, the hooks must stay those of a tree
  for (auto &ra : g_readd) {
    int c = ra.first, q = ra.second, n = (int)g_spec.size();
    if (n < 3) break;
    c = 1 + (((c - 1) % (n - 1)) + (n - 1)) % (n - 1); q = ((q % n) + n) % n;
    bool bad = q == c || q == g_spec[(size_t)c].parent;
    for (int a = q; a >= 0 && !bad; a = g_spec[(size_t)a].parent) if (a == c) bad = true;      // no cycles
    if (bad) continue;
    bool accepted = mods[(size_t)q]->add(mods[(size_t)c], true);
    sim::probe(accepted ? "second_parent_accepted" : "second_parent_refused");
  }
  return mods[0];
}

void execute_calls(const sim::Plan &plan) {
  StubContext ctx;
  Probe *root = build_tree(ctx, false);
  if (sim::violation_count()) return;
  Json js;
  root->fillDefaultConfig(js);
  // remove configuration nodes: walk from the root through the named ancestors to the parent's object
  for (size_t i = 1; i < g_spec.size(); ++i) {
    if (!g_spec[i].nocfg) continue;
    auto name_of = [](size_t k) { return g_spec[k].how == 2 ? "r" + std::to_string(k) : (g_spec[k].named ? "m" + std::to_string(k) : std::string()); };
    std::vector<std::string> path;
    for (int a = g_spec[i].parent; a > 0; a = g_spec[(size_t)a].parent) { std::string nm = name_of((size_t)a); if (!nm.empty()) path.insert(path.begin(), nm); }
    Json *j = &js; bool ok = true;
    for (auto &nm : path) { if (!j->is_object() || !j->contains(nm)) { ok = false; break; } j = &(*j)[nm]; }
    if (ok && j->is_object() && j->contains(name_of(i))) { j->erase(name_of(i)); sim::probe("config_nodes_removed"); }
    else g_spec[i].nocfg = false;      // (an ancestor's node is gone already)
  }

  std::set<int> all; for (size_t i = 0; i < g_spec.size(); ++i) all.insert((int)i);
  Oracle O;
  std::set<int> &inited = O.inited, &running = O.running;
  int S = 0;                            // model of the root: 0 none, 1 inited, 2 running

  for (const sim::Op &op : plan.ops) {
    if (op.kind != "call") continue;
    if (sim::violation_count()) break;
    long c = ((op.arg(0) % 4) + 4) % 4;
    size_t from = g_trace.size();
    sim::relevant();
    if (c == 0) {
      bool r = root->initialize(js);
      std::vector<int> att; std::set<int> suc;
      bool want = S == 0 ? expect_pass(0, true, all, att, suc) : false;
      if (S != 0) att.clear();
      std::vector<int> got; for (size_t i = from; i < g_trace.size(); ++i) if (g_trace[i].hook == K_INIT) got.push_back(g_trace[i].node);
      if (r != want) sim::violation("C11/initialize-result", sim::fmt("initialize() returned %d, expected %d", (int)r, (int)want));
      else if (got != att) sim::violation("C11/init-set", sim::fmt("initialize(): onInit was attempted on %zu modules, the pre-order walk with early return on a failing required child (and none for a failing optional one) attempts %zu", got.size(), att.size()));
      O.check_reverse_order(from, "initialize()");
      O.account(from, "initialize()");
      if (r) S = 1;
      else if (S == 0) {
        // a failed initialize(): the user cleans up; afterwards every successful init must have had its cleanup
        size_t f2 = g_trace.size();
        root->cleanup();
        O.check_reverse_order(f2, "cleanup() after a failed initialize()");
        O.account(f2, "cleanup() after a failed initialize()");
        O.expect_balanced_none("after a failed initialize() followed by cleanup()");
      }
    } else if (c == 1) {
      bool r = root->start();
      std::vector<int> att; std::set<int> suc;
      std::set<int> elig = inited;
      bool want = S == 1 ? expect_pass(0, false, elig, att, suc) : false;
      if (S != 1) att.clear();
      std::vector<int> got; for (size_t i = from; i < g_trace.size(); ++i) if (g_trace[i].hook == K_START) got.push_back(g_trace[i].node);
      if (r != want) sim::violation("C11/start-result", sim::fmt("start() returned %d, expected %d", (int)r, (int)want));
      else if (got != att) sim::violation("C11/start-set", sim::fmt("start(): onStart was attempted on %zu modules, expected %zu", got.size(), att.size()));
      O.check_reverse_order(from, "start()");
      O.account(from, "start()");
      if (r) S = 2;
      else if (S == 1) {
        size_t f2 = g_trace.size();
        root->cleanup();
        O.check_reverse_order(f2, "cleanup() after a failed start()");
        O.account(f2, "cleanup() after a failed start()");
        O.expect_balanced_none("after a failed start() followed by cleanup()");
        S = 0;
      }
    } else if (c == 2) {
      std::set<int> want = S == 2 ? running : std::set<int>();
      root->stop();
      std::set<int> got; for (size_t i = from; i < g_trace.size(); ++i) { if (g_trace[i].hook == K_STOP) got.insert(g_trace[i].node); else sim::violation("C11/unexpected-hook", sim::fmt("stop() called %s", HN[g_trace[i].hook])); }
      if (got != want) sim::violation("C11/stop-set", sim::fmt("stop(): onStop ran on %zu modules, %zu are started", got.size(), want.size()));
      O.check_reverse_order(from, "stop()");
      O.account(from, "stop()");
      if (S == 2) S = 1;
    } else {
      root->cleanup();
      // the tear-down is the exact reverse of bring-up (all inits, then all starts): every stop precedes every cleanup
      O.stops_before_cleanups(from, "cleanup()");
      O.check_reverse_order(from, "cleanup()");
      O.account(from, "cleanup()");
      O.expect_balanced_none("after cleanup()");
      S = 0;
    }
  }
  if (sim::violation_count() == 0) {
    if (plan.get("nofinal")) {
      // destruction without a final cleanup(): the destructor cleans the tree up; the hooks of the object being destroyed
      // itself (node 0) can no longer be dispatched by then, every other module must still be balanced
      size_t from = g_trace.size();
      delete root;
      O.stops_before_cleanups(from, "destruction");
      O.check_reverse_order(from, "destruction");
      O.account(from, "destruction");
      O.expect_balanced_none("after destruction without a final cleanup()", 0);
      sim::probe("destroyed_without_cleanup");
    } else {
      size_t from = g_trace.size();
      root->cleanup();
      O.check_reverse_order(from, "final cleanup()");
      O.account(from, "final cleanup()");
      O.expect_balanced_none("after the final cleanup()");
      size_t f3 = g_trace.size();
      delete root;     // deletes the whole tree
      if (g_trace.size() != f3) sim::violation("C11/hook-during-destruction", "a user hook ran during destruction of a tree that had been cleaned up");
    }
  }
}

// ---------------------------------------------------------------------- parts 1 and 2: the real Main() / Start()+Stop()
void noop_handler(int) {}

void execute_main(const sim::Plan &plan, long part) {
  g_main_mode = true;
  g_ticks.assign(g_spec.size(), 0);
  g_timers.assign(g_spec.size(), nullptr);
  sim::set_deadlock_handler([](const sim::DeadlockInfo &info) { sim::violation("C11/main-never-returns", "every thread is blocked before the framework has shut down: " + info.summary); });
  sim::set_stepcap_handler([] { sim::violation("C11/main-never-returns", "the framework spins without shutting down (step cap)"); });
  sim::set_step_cap(2000000);
  // whatever the framework prints goes to the captured stderr, never to the result channel
  dup2(2, 1);
  // a disposition of our own under the framework's SIGINT subscription, so that a late signal is harmless
  struct sigaction sa; memset(&sa, 0, sizeof sa); sa.sa_handler = noop_handler; sigaction(SIGINT, &sa, nullptr);

  long run_ms = std::max(0L, std::min(5000L, plan.get("run_ms")));
  std::string wait = std::string("exit_wait_sec=") + (plan.get("exit_wait") ? "1" : "0");
  // cfg fault_hup: the configuration asks for "hang on a fatal signal" (is_fault_hup); no run raises such a signal, and the setting
  // has no say in how a failed initialise or start is unwound
  const char *argv_c[] = {"c11_app", "-s", "log.stdout.enable=false", "-s", wait.c_str(), "-s", "is_fault_hup=true", nullptr};
  char **argv = const_cast<char **>(argv_c);
  int argc = plan.get("fault_hup") ? 7 : 5;
  if (plan.get("fault_hup")) sim::probe("is_fault_hup_configured");

  // Start()/Stop() can be used again after a full cycle: every cycle builds a fresh tree (RegisterApps) and is judged on its own
  long cycles = part == 2 ? std::max(1L, std::min(3L, plan.get("cycles", 1))) : 1;
  for (long cyc = 0; cyc < cycles && sim::violation_count() == 0; ++cyc) {
    g_trace.clear();
    g_ticks.assign(g_spec.size(), 0);
    g_timers.assign(g_spec.size(), nullptr);
    if (cyc > 0) sim::probe("start_stop_cycles_after_the_first");
    // reference: what the frame work must do with the tree
    std::set<int> all; for (size_t i = 0; i < g_spec.size(); ++i) all.insert((int)i);
    std::vector<int> att_i, att_s; std::set<int> suc_i, suc_s, up_s;
    bool ok_i = expect_pass(0, true, all, att_i, suc_i) || !g_spec[0].required;     // the framework's own root holds node 0 as a child
    bool ok_s = false;

    int64_t t_begin = sim::now_ms();
    bool started = false;
    if (part == 1) {
      std::thread driver([run_ms] {
        sim::name_thread("driver");
        sim::sleep_ns(run_ms * 1000000LL + 500000);
        sim::trace("driver raises SIGINT");
        { sim::NoSched ns; raise(SIGINT); }
      });
      int rc = tbox::main::Main(argc, argv);
      if (rc != 0) sim::violation("C11/main-result", sim::fmt("Main() returned %d", rc));
      driver.join();
    } else {
      started = tbox::main::Start(argc, argv);
      if (started) {
        sim::sleep_ns(run_ms * 1000000LL + 500000);
        tbox::main::Stop();
      }
    }
    int64_t t_end = sim::now_ms();
    (void)t_begin; (void)t_end;

    // ---------------------------------------------------------------- oracle over the recorded hooks
    Oracle O;
    size_t pos = 0;
    auto take = [&](int hook) { std::vector<int> v; while (pos < g_trace.size() && g_trace[pos].hook == hook) v.push_back(g_trace[pos++].node); return v; };
    // phase 1: initialise (a failing required child makes the pass roll back: cleanups may be interleaved there)
    std::vector<int> got_i; size_t init_end = 0;
    for (size_t i = 0; i < g_trace.size(); ++i) if (g_trace[i].hook == K_INIT) { got_i.push_back(g_trace[i].node); init_end = i + 1; }
    if (got_i != att_i) sim::violation("C11/init-set", sim::fmt("Main: onInit was attempted on %zu modules, the pre-order walk with early return on a failing required child attempts %zu", got_i.size(), att_i.size()));
    std::vector<int> got_s; for (const Ev &e : g_trace) if (e.hook == K_START) got_s.push_back(e.node);
    if (ok_i) {
      // eligible for start: initialised and not rolled back by the time the start pass begins
      std::set<int> elig;
      for (const Ev &e : g_trace) { if (e.hook == K_START) break; if (e.hook == K_INIT && e.ok) elig.insert(e.node); else if (e.hook == K_CLEANUP) elig.erase(e.node); }
      ok_s = expect_pass(0, false, elig, att_s, suc_s) || !g_spec[0].required;
      up_pass(0, false, elig, up_s);
    }
    if (sim::violation_count() == 0 && got_s != att_s) sim::violation("C11/start-set", sim::fmt("Main: onStart was attempted on %zu modules, expected %zu (initialise %s)", got_s.size(), att_s.size(), ok_i ? "succeeded" : "failed"));
    (void)take; (void)init_end;
    if (part == 2 && sim::violation_count() == 0 && started != (ok_i && ok_s)) sim::violation("C11/start-result", sim::fmt("Start() returned %d, the tree's initialise/start %s", (int)started, (ok_i && ok_s) ? "succeed" : "fail"));
    if (sim::violation_count() == 0) {
      O.check_reverse_order(0, "Main");
      O.account(0, "Main");
      O.expect_balanced_none("after the framework has shut down and destroyed the tree");
    }
    if (sim::violation_count() == 0 && ok_i && ok_s) {
      // the tree ran.  Which thread serves which hook and whether the loop is still running during the final stop pass are
      // not part of the property: counted, not judged.
      for (const Ev &e : g_trace) {
        if (e.hook == K_STOP && up_s.count(e.node)) sim::probe(e.loop_running ? "final_stop_inside_loop" : "final_stop_outside_loop");
        if (e.tid != 0) sim::probe("hooks_off_the_calling_thread");
      }
      if (sim::violation_count() == 0 && run_ms >= 40)
        for (int n : up_s) if (g_ticks[(size_t)n] < 1) { sim::violation("C11/started-module-not-running", sim::fmt("module n%d started successfully and the framework ran for %ld ms, yet its 10 ms timer on the context's loop never fired", n, run_ms)); break; }
      sim::probe("main_ran");
    } else if (sim::violation_count() == 0) sim::probe(ok_i ? "main_start_failed" : "main_init_failed");
    for (auto *t : g_timers) if (t) { sim::violation("C11/start-without-stop", "a started module's timer is still alive after shutdown"); break; }
  }
}

void execute(const sim::Plan &plan) {
  sim::start(plan);
  load_spec(plan);
  long part = std::max(0L, std::min(2L, plan.get("part")));
  g_main_mode = false;
  if (part == 0) execute_calls(plan);
  else execute_main(plan, part);
  sim::probe("hooks", (long)g_trace.size());
  sim::finish();
}

const sim::Harness H = {"C11", "c11_modules", generate, execute};
}  // namespace

// the application's module registration, called by Main()/Start()
namespace tbox { namespace main {
void RegisterApps(Module &apps, Context &ctx) {
  Probe *root = build_tree(ctx, true);
  apps.add(root, g_spec[0].required);
}
} }

int main(int argc, char **argv) { return sim::harness_main(argc, argv, H); }
