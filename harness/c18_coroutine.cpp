// C18 — coroutine primitives: FIFO channels, mutual exclusion, semaphore bound, no lost wake-ups, cancel/cleanup.
// Single-loop mode: the coroutine scheduler runs on the loop thread; external operations come from the pre-wait hook.
#include <sim.h>
#include "loopdrv.h"

#include <tbox/event/loop.h>
#include <tbox/coroutine/scheduler.h>
#include <tbox/coroutine/channel.hpp>
#include <tbox/coroutine/mutex.hpp>
#include <tbox/coroutine/semaphore.hpp>
#include <tbox/coroutine/broadcast.hpp>
#include <tbox/coroutine/condition.hpp>

#include <algorithm>
#include <deque>
#include <memory>
#include <set>
#include <vector>

using namespace tbox;
using namespace tbox::event;
using namespace tbox::coroutine;

namespace {

const int NR = 6, NCH = 2, NMX = 2, NSEM = 2;
enum Step { S_YIELD = 0, S_WAIT, S_SEND, S_RECV, S_LOCK, S_UNLOCK, S_ACQUIRE, S_RELEASE, S_BWAIT, S_BPOST, S_JOIN, S_CANCEL, S_CREATE, S_CADD, S_CWAIT, S_CPOST, S_NSTEP };
enum { M_WAKECANCEL = 100 };     // main only: wake whoever waits on an object (send / release / post) and cancel the first of the woken routines before it has run
static const char *SN[] = {"yield", "wait", "send", "recv", "lock", "unlock", "acquire", "release", "bwait", "bpost", "join", "cancel", "create", "cadd", "cwait", "cpost"};

// ops:  rt <r> <autostart>      st <r> <kind> <a>      mn <dt_ms> <kind> <a>      (main kinds: S_WAIT=resume r, S_CANCEL, S_SEND ch, S_RELEASE s, S_BPOST, S_CPOST v, S_CREATE r)
void generate(sim::Rng &r, uint64_t seed, const std::string &tier, sim::Plan &p) {
  bool thorough = tier == "thorough";
  p.cfg["backend"] = r.below(2);
  p.cfg["sem0"] = r.range(0, 2);
  p.cfg["sem1"] = r.range(0, 1);
  p.cfg["cond_any"] = r.below(2);
  p.cfg["early_cleanup"] = r.chance(200) ? 1 : 0;     // cleanup() right after the last main operation, while the routines it woke are ready but have not run
  long nr = r.range(2, NR);
  // a few "themes" make the interesting collisions likely: several waiters on one primitive + bursts of releases
  long theme = (long)r.below(5);    // 0 mixed, 1 semaphore, 2 channel, 3 mutex, 4 broadcast/condition/join
  for (long i = 0; i < nr; ++i) { sim::Op op; op.kind = "rt"; op.a = {i, r.chance(800) ? 1 : 0}; p.ops.push_back(op); }
  for (long i = 0; i < nr; ++i) {
    int ns = (int)r.range(1, thorough ? 12 : 7);
    for (int k = 0; k < ns; ++k) {
      sim::Op op; op.kind = "st";
      long kind, a = 0;
      unsigned x = (unsigned)r.below(100);
      if (theme == 1) kind = x < 45 ? S_ACQUIRE : x < 80 ? S_RELEASE : x < 90 ? S_YIELD : (long)r.below(S_NSTEP);
      else if (theme == 2) kind = x < 45 ? S_RECV : x < 80 ? S_SEND : x < 90 ? S_YIELD : (long)r.below(S_NSTEP);
      else if (theme == 3) kind = x < 45 ? S_LOCK : x < 80 ? S_UNLOCK : x < 90 ? S_YIELD : (long)r.below(S_NSTEP);
      else if (theme == 4) { static const long ks[] = {S_BWAIT, S_BPOST, S_JOIN, S_CADD, S_CWAIT, S_CPOST, S_YIELD, S_CANCEL, S_CREATE, S_WAIT}; kind = ks[r.below(10)]; }
      else kind = (long)r.below(S_NSTEP);
      if (kind == S_SEND || kind == S_RECV) a = r.chance(800) ? 0 : 1;
      if (kind == S_SEND && r.chance(120)) a += NCH * r.range(4, 40);       // a burst of 5-41 values in one step: the backlog grows far beyond what alternating sends and receives leave
      else if (kind == S_LOCK || kind == S_UNLOCK) { a = r.chance(800) ? 0 : 1; if (kind == S_UNLOCK && r.chance(300)) a += NMX; }   // + NMX: after unlocking, cancel the first routine waiting for that mutex before it runs
      else if (kind == S_ACQUIRE || kind == S_RELEASE) a = r.chance(800) ? 0 : 1;
      else if (kind == S_JOIN || kind == S_CANCEL || kind == S_CREATE) a = (long)r.below((uint64_t)nr);
      else if (kind == S_CADD || kind == S_CPOST) a = r.range(1, 3);
      op.a = {i, kind, a};
      p.ops.push_back(op);
    }
  }
  int nm = (int)r.range(0, thorough ? 14 : 8);
  for (int k = 0; k < nm; ++k) {
    sim::Op op; op.kind = "mn";
    static const long mk[] = {S_WAIT, S_WAIT, S_CANCEL, S_SEND, S_SEND, S_RELEASE, S_RELEASE, S_BPOST, S_CPOST, S_CREATE};
    long kind = mk[r.below(10)], a = 0;
    if (kind == S_WAIT || kind == S_CANCEL || kind == S_CREATE) a = (long)r.below((uint64_t)nr);
    else if (kind == S_CPOST) a = r.range(1, 3);
    else a = r.chance(800) ? 0 : 1;
    if (kind == S_SEND && r.chance(120)) a += NCH * r.range(4, 40);
    op.a = {r.chance(500) ? 0 : r.range(1, 5), kind, a};
    // 4th: after a waking operation (send / release / broadcast post), cancel the first routine it woke before that routine runs
    if ((kind == S_SEND || kind == S_RELEASE || kind == S_BPOST) && r.chance(300)) op.a.push_back(1);
    p.ops.push_back(op);
  }
  p.sched.strategy = "none";
}

struct RState {
  bool defined = false, autostart = false, created = false, started = false, finished = false, cancel_sent = false;
  RoutineToken token;
  std::vector<std::pair<int, long>> steps;
  int blocked_kind = -1; long blocked_obj = 0;      // blocking call in progress
  int bwait_epoch = -1;
};

struct World {
  Loop *loop = nullptr;
  Scheduler *sch = nullptr;
  std::unique_ptr<Channel<int>> ch[NCH];
  std::unique_ptr<Mutex> mx[NMX];
  std::unique_ptr<Semaphore> sem[NSEM];
  std::unique_ptr<Broadcast> bc;
  std::unique_ptr<Condition<int>> cond;
  RState rs[NR];
  // models
  std::deque<int> chq[NCH]; int next_val = 1;
  int mx_holder[NMX];
  long sem_count[NSEM]; long sem_acq[NSEM], sem_rel[NSEM], sem_init[NSEM];
  int bc_epoch = 0;            // number of posts so far
  std::vector<int> bc_waiting; // routines waiting on the broadcast right now
  std::vector<int> bc_must_return;   // routines that were waiting when a post happened and have not returned yet
  // condition model
  std::set<int> cm_conds; int cm_waiter = -1; bool cm_any = false, cm_poisoned = false; std::vector<int> cm_must_return;
  bool cleaning = false, cleanup_success_reported = false, cleaned_early = false;
  long quiescence_checks = 0;
};
World W;

void create_routine(int r, bool run_now);

// a post counts whether or not somebody waits already (add() ... other work ... wait())
void cond_post_model(int v) {
  if (!W.cm_conds.count(v)) return;
  if (!W.cm_any) { W.cm_conds.erase(v); if (!W.cm_conds.empty()) return; } else W.cm_conds.clear();
  if (W.cm_waiter >= 0) { W.cm_must_return.push_back(W.cm_waiter); W.cm_waiter = -1; }
}

void routine_body(int r, Scheduler &sch) {
  RState &me = W.rs[r];
  me.started = true;
  sim::trace("R%d start", r);
  for (size_t i = 0; i < me.steps.size(); ++i) {
    int kind = me.steps[i].first; long a = me.steps[i].second;
    sim::trace("R%d step %s %ld", r, SN[kind], a);
    sim::relevant();
    bool ok = true;
    switch (kind) {
      case S_YIELD: sch.yield(); ok = !sch.isCanceled(); break;
      case S_WAIT: me.blocked_kind = S_WAIT; sch.wait(); me.blocked_kind = -1; ok = !sch.isCanceled(); break;
      case S_SEND: { int c = (int)(a % NCH); for (long j = 0; j <= a / NCH; ++j) { int v = W.next_val++; W.chq[c].push_back(v); *W.ch[c] << v; } if (a >= NCH) sim::probe("send_burst"); break; }
      case S_RECV: {
        int c = (int)(a % NCH); int v = -1;
        me.blocked_kind = S_RECV; me.blocked_obj = c;
        ok = *W.ch[c] >> v;
        me.blocked_kind = -1;
        if (ok) {
          if (W.chq[c].empty()) sim::violation("C18/channel-value-from-nowhere", "a receive returned a value although the channel model is empty (duplicate delivery)");
          else if (W.chq[c].front() != v) { sim::violation("C18/channel-order", sim::fmt("channel delivered %d, the oldest undelivered value is %d (values must arrive exactly once, in order)", v, W.chq[c].front())); }
          else W.chq[c].pop_front();
        }
        break;
      }
      case S_LOCK: {
        int m = (int)(a % NMX);
        if (W.mx_holder[m] == r) break;                 // re-lock by the holder is a no-op in the API; nothing to check
        me.blocked_kind = S_LOCK; me.blocked_obj = m;
        ok = W.mx[m]->lock();
        me.blocked_kind = -1;
        if (ok) {
          if (W.mx_holder[m] != -1 && W.mx_holder[m] != r) sim::violation("C18/mutex-two-holders", sim::fmt("lock() succeeded for R%d while R%d holds the mutex", r, W.mx_holder[m]));
          W.mx_holder[m] = r;
        }
        break;
      }
      case S_UNLOCK: {
        int m = (int)(a % NMX);
        if (W.mx_holder[m] == r) {
          W.mx_holder[m] = -1; W.mx[m]->unlock();
          if ((a / NMX) & 1) for (int o = 0; o < NR; ++o) { RState &x = W.rs[o]; if (o != r && x.created && !x.finished && x.blocked_kind == S_LOCK && x.blocked_obj == m) { x.cancel_sent = true; sch.cancel(x.token); sim::probe("wake_then_cancel"); break; } }
        }
        break;
      }
      case S_ACQUIRE: {
        int s = (int)(a % NSEM);
        me.blocked_kind = S_ACQUIRE; me.blocked_obj = s;
        ok = W.sem[s]->acquire();
        me.blocked_kind = -1;
        if (ok) {
          ++W.sem_acq[s]; --W.sem_count[s];
          if (W.sem_acq[s] > W.sem_rel[s] + W.sem_init[s]) sim::violation("C18/semaphore-over-acquired", sim::fmt("%ld acquisitions granted with initial count %ld and %ld releases", W.sem_acq[s], W.sem_init[s], W.sem_rel[s]));
        }
        break;
      }
      case S_RELEASE: { int s = (int)(a % NSEM); ++W.sem_rel[s]; ++W.sem_count[s]; W.sem[s]->release(); break; }
      case S_BWAIT: {
        me.blocked_kind = S_BWAIT; W.bc_waiting.push_back(r);
        ok = W.bc->wait();
        me.blocked_kind = -1;
        W.bc_waiting.erase(std::remove(W.bc_waiting.begin(), W.bc_waiting.end(), r), W.bc_waiting.end());
        W.bc_must_return.erase(std::remove(W.bc_must_return.begin(), W.bc_must_return.end(), r), W.bc_must_return.end());
        break;
      }
      case S_BPOST: { for (int w : W.bc_waiting) W.bc_must_return.push_back(w); W.bc_waiting.clear(); ++W.bc_epoch; W.bc->post(); break; }
      case S_JOIN: {
        int t = (int)(a % NR);
        if (t == r || !W.rs[t].created) break;
        me.blocked_kind = S_JOIN; me.blocked_obj = t;
        bool jr = sch.join(W.rs[t].token);
        me.blocked_kind = -1;
        if (jr && !W.rs[t].finished && W.rs[t].started) sim::violation("C18/join-returned-early", sim::fmt("join() returned success although R%d has not finished", t));
        ok = !sch.isCanceled();
        break;
      }
      case S_CANCEL: { int t = (int)(a % NR); if (t != r && W.rs[t].created && !W.rs[t].finished) { W.rs[t].cancel_sent = true; sch.cancel(W.rs[t].token); } break; }
      case S_CREATE: { int t = (int)(a % NR); if (W.rs[t].defined && !W.rs[t].created) create_routine(t, true); break; }
      case S_CADD: W.cond->add((int)a); W.cm_conds.insert((int)a); break;
      case S_CWAIT: {
        bool will_block = W.cm_waiter < 0 && !W.cm_conds.empty();
        if (will_block) W.cm_waiter = r;
        me.blocked_kind = S_CWAIT; ok = W.cond->wait(); me.blocked_kind = -1;
        if (will_block) {
          W.cm_conds.clear();
          W.cm_must_return.erase(std::remove(W.cm_must_return.begin(), W.cm_must_return.end(), r), W.cm_must_return.end());
          if (W.cm_waiter == r) { W.cm_waiter = -1; W.cm_poisoned = true; }     // left wait() without a post: cancelled; the object keeps a stale waiter from here on
        }
        if (!ok && !sch.isCanceled()) ok = true;   // "nothing to wait for" is not a failure
        break;
      }
      case S_CPOST: cond_post_model((int)a); W.cond->post((int)a); break;
    }
    if (ok && W.cleaning && (kind == S_YIELD || kind == S_WAIT || kind == S_RECV || kind == S_LOCK || kind == S_ACQUIRE || kind == S_BWAIT || kind == S_JOIN || kind == S_CWAIT) && !W.cleanup_success_reported) {
      W.cleanup_success_reported = true;
      sim::violation("C18/blocking-call-succeeds-during-cleanup", sim::fmt("R%d: %s returned success after Scheduler::cleanup() had begun", r, SN[kind]));
    }
    if (!ok) {
      // a blocking call reported failure: only legal after cancel/cleanup
      if (!me.cancel_sent && !W.cleaning) sim::violation("C18/blocking-call-failed-without-cancel", sim::fmt("R%d: %s returned failure although the routine was neither cancelled nor cleaned up", r, SN[kind]));
      break;
    }
  }
  // a routine must not die holding a mutex in this harness: release what it holds
  for (int m = 0; m < NMX; ++m) if (W.mx_holder[m] == r) { W.mx_holder[m] = -1; W.mx[m]->unlock(); }
  me.finished = true;
  sim::trace("R%d end", r);
}

void create_routine(int r, bool run_now) {
  RState &s = W.rs[r];
  s.created = true;
  s.token = W.sch->create([r](Scheduler &sch) { routine_body(r, sch); }, run_now, "R" + std::to_string(r), 256 * 1024);
}

void check_quiescence(int timeout_ms) {
  if (timeout_ms == 0 || W.cleaning || !W.sch) return;
  ++W.quiescence_checks;
  // the scheduler has run out of ready routines (otherwise a deferred task would make the wait time 0)
  for (int r = 0; r < NR; ++r) {
    RState &s = W.rs[r];
    if (!s.started || s.finished || s.blocked_kind < 0) continue;
    if (s.blocked_kind == S_LOCK && W.mx_holder[s.blocked_obj] == -1)
      sim::violation("C18/waiter-stranded-on-free-mutex", sim::fmt("the scheduler is idle, R%d is suspended in lock() and the mutex is free", r));
    if (s.blocked_kind == S_ACQUIRE && W.sem_count[s.blocked_obj] > 0)
      sim::violation("C18/waiter-stranded-on-positive-semaphore", sim::fmt("the scheduler is idle, R%d is suspended in acquire() and the semaphore count is %ld", r, W.sem_count[s.blocked_obj]));
    if (s.blocked_kind == S_RECV && !W.chq[s.blocked_obj].empty())
      sim::violation("C18/waiter-stranded-on-nonempty-channel", sim::fmt("the scheduler is idle, R%d is suspended in receive and the channel holds %zu value(s)", r, W.chq[s.blocked_obj].size()));
  }
  for (int r = 0; r < NR; ++r) {
    RState &s = W.rs[r];
    if (!s.started || s.finished || s.blocked_kind != S_JOIN) continue;
    RState &t = W.rs[s.blocked_obj];
    // a target that has finished, or that was cancelled (a cancelled routine terminates as soon as it is scheduled, so it is gone
    // by the time the scheduler is idle) can never resume its joiner later: the joiner must have been resumed already
    if (t.finished || t.cancel_sent)
      sim::violation("C18/joiner-stranded", sim::fmt("the scheduler is idle, R%d is suspended in join(R%ld) and that routine has %s", r, s.blocked_obj, t.finished ? "finished" : "been cancelled"));
  }
  if (!W.cm_poisoned && !W.cm_must_return.empty())
    sim::violation("C18/condition-waiter-not-resumed", sim::fmt("the scheduler is idle and R%d, whose condition has been satisfied by the posts made so far, has not returned from wait()", W.cm_must_return[0]));
  if (!W.bc_must_return.empty())
    sim::violation("C18/broadcast-waiter-not-resumed", sim::fmt("the scheduler is idle and R%d, which was waiting when the broadcast was posted, has not returned from wait()", W.bc_must_return[0]));
}

void execute(const sim::Plan &plan) {
  sim::start(plan);
  sim::name_thread("loop");
  sim::set_deadlock_handler([](const sim::DeadlockInfo &info) { sim::violation("C18/loop-never-wakes", "the loop blocks for ever before the end of the plan: " + info.summary); });
  sim::set_stepcap_handler([] { sim::violation(W.cleaning ? "C18/cleanup-never-terminates" : "C18/livelock", "step cap reached"); });
  W = World();
  for (int m = 0; m < NMX; ++m) W.mx_holder[m] = -1;
  W.loop = Loop::New(plan.get("backend") ? "select" : "epoll");
  W.sch = new Scheduler(W.loop);
  for (int c = 0; c < NCH; ++c) W.ch[c].reset(new Channel<int>(*W.sch));
  for (int m = 0; m < NMX; ++m) W.mx[m].reset(new Mutex(*W.sch));
  W.sem_init[0] = std::max(0L, std::min(3L, plan.get("sem0"))); W.sem_init[1] = std::max(0L, std::min(3L, plan.get("sem1")));
  for (int s = 0; s < NSEM; ++s) { W.sem[s].reset(new Semaphore(*W.sch, (int)W.sem_init[s])); W.sem_count[s] = W.sem_init[s]; W.sem_acq[s] = W.sem_rel[s] = 0; }
  W.bc.reset(new Broadcast(*W.sch));
  W.cm_any = plan.get("cond_any") != 0;
  W.cond.reset(new Condition<int>(*W.sch, plan.get("cond_any") ? Condition<int>::Logic::kAny : Condition<int>::Logic::kAll));

  for (const sim::Op &op : plan.ops) {
    if (op.kind == "rt") { int r = (int)(((op.arg(0) % NR) + NR) % NR); W.rs[r].defined = true; W.rs[r].autostart = op.arg(1) != 0; }
    else if (op.kind == "st") { int r = (int)(((op.arg(0) % NR) + NR) % NR); int k = (int)(((op.arg(1) % S_NSTEP) + S_NSTEP) % S_NSTEP); if (W.rs[r].steps.size() < 16) W.rs[r].steps.push_back({k, std::max(0L, op.arg(2))}); }
  }
  for (int r = 0; r < NR; ++r) if (W.rs[r].defined && W.rs[r].autostart) create_routine(r, true);

  static drv::Timeline tl;
  tl = drv::Timeline();
  int64_t t = sim::now_ns() + 1000000;
  size_t last_mn = plan.ops.size();
  for (size_t i = 0; i < plan.ops.size(); ++i) if (plan.ops[i].kind == "mn") last_mn = i;
  bool early = plan.get("early_cleanup") != 0;
  for (size_t i = 0; i < plan.ops.size(); ++i) {
    const sim::Op *op = &plan.ops[i];
    if (op->kind != "mn") continue;
    t += std::max(0L, std::min(50L, op->arg(0))) * 1000000;
    bool cleanup_after = early && i == last_mn;
    tl.at(t, [op, cleanup_after] {
      W.loop->runInLoop([op, cleanup_after] {
        int kind = (int)(((op->arg(1) % S_NSTEP) + S_NSTEP) % S_NSTEP); long a = std::max(0L, op->arg(2));
        sim::trace("main %s %ld", SN[kind], a);
        sim::relevant();
        switch (kind) {
          // resume() is the counterpart of wait(): it is only applied to a routine that is suspended in a plain wait()
          case S_WAIT: { int r = (int)(a % NR); if (W.rs[r].created && !W.rs[r].finished && W.rs[r].blocked_kind == S_WAIT) W.sch->resume(W.rs[r].token); break; }
          case S_CANCEL: { int r = (int)(a % NR); if (W.rs[r].created && !W.rs[r].finished) { W.rs[r].cancel_sent = true; W.sch->cancel(W.rs[r].token); } break; }
          case S_SEND: { int c = (int)(a % NCH); for (long j = 0; j <= a / NCH; ++j) { int v = W.next_val++; W.chq[c].push_back(v); *W.ch[c] << v; } if (a >= NCH) sim::probe("send_burst"); break; }
          case S_RELEASE: { int s = (int)(a % NSEM); ++W.sem_rel[s]; ++W.sem_count[s]; W.sem[s]->release(); break; }
          case S_BPOST: { for (int w : W.bc_waiting) W.bc_must_return.push_back(w); W.bc_waiting.clear(); ++W.bc_epoch; W.bc->post(); break; }
          case S_CPOST: cond_post_model((int)a); W.cond->post((int)a); break;
          case S_CREATE: { int r = (int)(a % NR); if (W.rs[r].defined && !W.rs[r].created) create_routine(r, true); break; }
          default: break;
        }
        if (op->arg(3) != 0 && (kind == S_SEND || kind == S_RELEASE || kind == S_BPOST)) {
          // the routine that was woken first is cancelled before it gets to run: whoever else waits must not be left behind
          int want_kind = kind == S_SEND ? S_RECV : kind == S_RELEASE ? S_ACQUIRE : S_BWAIT;
          long obj = kind == S_SEND ? (long)(a % NCH) : kind == S_RELEASE ? (long)(a % NSEM) : 0;
          for (int r = 0; r < NR; ++r) {
            RState &x = W.rs[r];
            if (x.created && !x.finished && x.blocked_kind == want_kind && (want_kind == S_BWAIT || x.blocked_obj == obj)) { x.cancel_sent = true; W.sch->cancel(x.token); sim::probe("wake_then_cancel"); break; }
          }
        }
        if (cleanup_after && !W.cleaned_early) {
          // cleanup() while the routines woken by this very operation are ready but have not run yet
          W.cleaned_early = true; W.cleaning = true;
          sim::trace("early cleanup");
          sim::probe("early_cleanups");
          W.sch->cleanup();
          for (int r = 0; r < NR; ++r) if (W.rs[r].started && !W.rs[r].finished) { sim::violation("C18/routine-alive-after-cleanup", sim::fmt("R%d was started and has not terminated after Scheduler::cleanup()", r)); break; }
        }
      }, "c18.main");
    }, (int)i);
  }
  t += 20 * 1000000;
  tl.at(t, [] { W.loop->runInLoop([] { W.loop->exitLoop(); }, "c18.exit"); });
  tl.install();
  sim::set_wait_entry_hook(check_quiescence);
  W.loop->runLoop(Loop::Mode::kForever);
  sim::set_prewait_hook(nullptr);
  sim::set_wait_entry_hook(nullptr);

  // cancel / cleanup: every started routine returns from its blocking call with failure and terminates
  W.cleaning = true;
  if (!W.cleaned_early) W.sch->cleanup();
  for (int r = 0; r < NR; ++r) {
    RState &s = W.rs[r];
    if (s.started && !s.finished) sim::violation("C18/routine-alive-after-cleanup", sim::fmt("R%d was started and has not terminated after Scheduler::cleanup()", r));
  }
  sim::probe("quiescence_checks", W.quiescence_checks);
  for (int c = 0; c < NCH; ++c) W.ch[c].reset();
  for (int m = 0; m < NMX; ++m) W.mx[m].reset();
  for (int s = 0; s < NSEM; ++s) W.sem[s].reset();
  W.bc.reset(); W.cond.reset();
  // deferred schedule() tasks posted during cleanup() refer to the scheduler: run them before it goes away
  // (the property says nothing about destroying a scheduler with such tasks pending, so the harness does not test it)
  W.loop->cleanup();
  delete W.sch; W.sch = nullptr;
  delete W.loop;
  sim::finish();
}

const sim::Harness H = {"C18", "c18_coroutine", generate, execute};
}  // namespace

int main(int argc, char **argv) { return sim::harness_main(argc, argv, H); }
