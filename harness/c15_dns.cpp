// C15 — DNS client: reply parsing is total and bounded, reports only what the datagram encodes,
// each lookup completes exactly once.  Single-loop mode; the name servers are simulated actors behind
// a real UDP socket on 127.0.0.1 to which the client's sendto(...:53) is redirected.
#include <sim.h>
#include "loopdrv.h"

#include <tbox/event/loop.h>
#include <tbox/network/dns_request.h>

#include <arpa/inet.h>
#include <fcntl.h>
#include <netinet/in.h>
#include <poll.h>
#include <sys/socket.h>
#include <unistd.h>

#include <algorithm>
#include <map>
#include <set>
#include <string>
#include <vector>

using namespace tbox;
using namespace tbox::event;
using namespace tbox::network;

namespace {

// ops:  req <dt_ms> <domain> <retry_on_timeout>        cancel <dt_ms> <k>        reply <dt_ms> <k> <kind> <arg> <nrec>
// kinds: 0 A records (compressed names) 1 CNAME+A 2 unknown type+A 3 rcode3 4 rcode2 5 rcode5 6 rcode1
//        7 truncated at arg 8 inflated an_count 9 pointer loop 10 forward pointer 11 pointer outside 12 random bytes (right id)
//        13 wrong id 14 query instead of response 15 tiny datagram (arg bytes, 0..3) 16 chain of pointers
//        20 a valid reply of more than 4096 bytes (larger than the client's receive buffer)
//   burst <dt_ms> <n>     n lookups at once
//   wrap <dt_ms> <k>      65530+k lookups made and cancelled at once: the lookups that follow get transaction ids around the 16-bit wrap (65535, 0, 1)
//        18 good A records, then an A record with RDLENGTH 0-3 at the very end   19 an A record with RDLENGTH 5-8, then good ones
//        21 an RCODE of 6..15 (YXDOMAIN, NOTAUTH, BADVERS...)   22/23 good A records, then a CNAME whose RDLENGTH points behind the
//        end of the datagram and whose name is cut off by it (22 inside a label, 23 between labels)
//        24 good A records and a record (CNAME target, or the owner name of an A record) with a label whose length octet is 64..143: longer than
//           any label a well-formed name has, and all its bytes are there
//        17 a label followed by a pointer back to that label (a loop that every single pointer check 'target lies before me' accepts)
void generate(sim::Rng &r, uint64_t seed, const std::string &tier, sim::Plan &p) {
  bool thorough = tier == "thorough";
  p.cfg["backend"] = r.below(2);
  p.cfg["nsrv"] = r.range(1, 3);
  int nreq = (int)r.range(1, thorough ? 6 : 4);
  int n = (int)r.range(1, thorough ? 20 : 10);
  { sim::Op op; op.kind = "req"; op.a = {0, r.range(0, 5), r.chance(300) ? 1 : 0}; p.ops.push_back(op); }
  int made = 1;
  // now and then many lookups at once (transaction ids in use at the same time must all be different)
  if (r.chance(60)) { sim::Op op; op.kind = "burst"; op.a = {r.range(0, 50), r.pick((const long[]){60, 250, 400})}; p.ops.push_back(op); }
  if (r.chance(8)) { sim::Op op; op.kind = "wrap"; op.a = {r.range(0, 20), r.range(0, 8)}; p.ops.push_back(op); nreq = std::max(nreq, 3); }
  for (int i = 0; i < n; ++i) {
    sim::Op op;
    unsigned x = (unsigned)r.below(100);
    long dt = r.chance(500) ? r.range(0, 5) : r.chance(700) ? r.range(5, 900) : r.range(900, 5200);
    if (x < 15 && made < nreq) { op.kind = "req"; op.a = {dt, r.range(0, 5), r.chance(300) ? 1 : 0}; ++made; }
    else if (x < 22) { op.kind = "cancel"; op.a = {dt, (long)r.below((uint64_t)made)}; }
    else {
      long kind;
      unsigned y = (unsigned)r.below(100);
      if (y < 30) kind = r.range(0, 2); else if (y < 42) kind = r.range(3, 6); else kind = r.range(7, 24);
      op.kind = "reply"; op.a = {dt, (long)r.below((uint64_t)made), kind, (long)r.below(80), r.range(0, 4)};
    }
    p.ops.push_back(op);
  }
  p.sched.strategy = "none";
}

static const char *DOMAINS[] = {"a.example.com", "www.test.org", "x.y", "host", "very.long.sub.domain.name.example.net", "q.example.com"};

struct Sent { uint32_t serial; std::vector<uint8_t> bytes; int64_t t = 0; long for_lookup = -1; };

struct Lookup {
  uint16_t id = 0; bool made = false; bool cancelled = false; int64_t t_req = 0; int64_t t_cancel = 0;
  int callbacks = 0; int64_t t_cb = 0; int status = -1;
  std::vector<std::pair<uint32_t, std::string>> a, cname;   // (ttl, value)
  std::string domain;
  long seqno = 0;                    // how many request() calls had been made before this one
};

struct World {
  Loop *loop = nullptr;
  DnsRequest *dns = nullptr;
  int srv = -1;                       // the name servers' socket
  struct sockaddr_in client; bool have_client = false; int client_fd = -1;
  std::vector<Lookup> lk;
  std::vector<Sent> sent;
  uint32_t serial = 1000;
  long queries_seen = 0;
  long requests_made = 0;             // every DnsRequest::request() call of the run, the bulk of a wrap op included
};
World W;

void drain_queries() {
  for (;;) {
    uint8_t buf[1500]; struct sockaddr_in from; socklen_t fl = sizeof from;
    ssize_t r = sim::raw::recvfrom(W.srv, buf, sizeof buf, MSG_DONTWAIT, (struct sockaddr *)&from, &fl);
    if (r <= 0) break;
    ++W.queries_seen;
    if (!W.have_client) {
      W.client = from; W.have_client = true;
      for (int fd = 3; fd < 64; ++fd) {
        struct sockaddr_in sa; socklen_t sl = sizeof sa;
        if (getsockname(fd, (struct sockaddr *)&sa, &sl) == 0 && sa.sin_family == AF_INET && sa.sin_port == from.sin_port && fd != W.srv) { W.client_fd = fd; break; }
      }
    }
  }
}

void put16(std::vector<uint8_t> &b, unsigned v) { b.push_back((uint8_t)(v >> 8)); b.push_back((uint8_t)v); }
void put32(std::vector<uint8_t> &b, uint32_t v) { put16(b, v >> 16); put16(b, v & 0xffff); }
void put_name(std::vector<uint8_t> &b, const std::string &name) {
  size_t s = 0;
  while (s <= name.size()) {
    size_t e = name.find('.', s);
    if (e == std::string::npos) e = name.size();
    if (e > s) { b.push_back((uint8_t)(e - s)); b.insert(b.end(), name.begin() + (long)s, name.begin() + (long)e); }
    s = e + 1;
  }
  b.push_back(0);
}

std::vector<uint8_t> craft(const Lookup &l, long kind, long arg, long nrec, uint32_t serial) {
  std::vector<uint8_t> b;
  uint16_t id = l.id;
  if (kind == 13) id = (uint16_t)(l.id + 1000);
  unsigned flags = 0x8180;
  if (kind == 3) flags |= 3; if (kind == 4) flags |= 2; if (kind == 5) flags |= 5; if (kind == 6) flags |= 1;
  if (kind == 14) flags = 0x0100;
  if (kind == 21) flags |= (unsigned)(6 + arg % 10);
  if (kind == 15) { for (long i = 0; i < std::min(3L, arg % 4); ++i) b.push_back(i == 0 ? (uint8_t)(id >> 8) : (uint8_t)id); return b; }
  put16(b, id); put16(b, flags);
  if (kind == 12) { sim::Rng rr((uint64_t)serial); long n = 4 + arg; for (long i = 0; i < n; ++i) b.push_back((uint8_t)rr.below(256)); return b; }
  long an = std::max(0L, std::min(4L, nrec));
  long an_field = an + (kind == 1 ? 1 : 0) + (kind == 2 ? 1 : 0) + (kind == 18 ? 1 : 0) + (kind == 19 ? 1 : 0) + (kind == 22 || kind == 23 ? 1 : 0);
  if (kind == 8) an_field = 200 + arg;
  if (kind == 20) an_field = 300;        // filled in below: a datagram larger than the client's 4096-byte receive buffer
  put16(b, 1); put16(b, (unsigned)an_field); put16(b, 0); put16(b, 0);
  size_t qname_off = b.size();
  put_name(b, l.domain);
  put16(b, 1); put16(b, 1);
  auto name_ptr = [&](size_t off) { b.push_back((uint8_t)(0xc0 | (off >> 8))); b.push_back((uint8_t)off); };
  if (kind == 9) { size_t here = b.size(); name_ptr(here); put16(b, 1); put16(b, 1); put32(b, serial); put16(b, 4); b.push_back(1); b.push_back(2); b.push_back(3); b.push_back(4); return b; }
  if (kind == 17) { size_t here = b.size(); b.push_back(1); b.push_back('a'); name_ptr(here); put16(b, 1); put16(b, 1); put32(b, serial); put16(b, 4); b.push_back(6); b.push_back(6); b.push_back(6); b.push_back(6); return b; }
  if (kind == 10) { name_ptr(b.size() + 20); put16(b, 1); put16(b, 1); put32(b, serial); put16(b, 4); b.push_back(9); b.push_back(9); b.push_back(9); b.push_back(9); for (int i = 0; i < 12; ++i) b.push_back(0); return b; }
  if (kind == 11) { name_ptr(0x3f00 + (size_t)arg); put16(b, 1); put16(b, 1); put32(b, serial); put16(b, 4); b.push_back(8); b.push_back(8); b.push_back(8); b.push_back(8); return b; }
  if (kind == 16) {
    // a legal chain of backward pointers: p3 -> p2 -> p1 -> question name
    size_t p1 = b.size(); name_ptr(qname_off);
    size_t p2 = b.size(); name_ptr(p1);
    size_t p3 = b.size(); name_ptr(p2);
    // p1..p3 are unreachable bytes between the question and the answers for a strict decoder that walks sequentially,
    // so put them inside an unknown-type record's rdata instead: rebuild properly
    b.resize(p1);
    name_ptr(qname_off); put16(b, 99); put16(b, 1); put32(b, serial); put16(b, 6);
    size_t r1 = b.size(); name_ptr(qname_off); size_t r2 = b.size(); name_ptr(r1); name_ptr(r2);
    (void)p2; (void)p3;
    // now an A record whose owner name goes through the chain r2 -> r1 -> question
    name_ptr(r2 + 2); put16(b, 1); put16(b, 1); put32(b, serial); put16(b, 4); b.push_back(7); b.push_back(7); b.push_back(7); b.push_back((uint8_t)arg);
    b[6] = 0; b[7] = 2;
    return b;
  }
  if (kind == 1) { name_ptr(qname_off); put16(b, 5); put16(b, 1); put32(b, serial); std::vector<uint8_t> cn; put_name(cn, "alias" + std::to_string(arg) + ".example.org"); put16(b, (unsigned)cn.size()); b.insert(b.end(), cn.begin(), cn.end()); }
  if (kind == 2) { name_ptr(qname_off); put16(b, 16); put16(b, 1); put32(b, serial); put16(b, 5); for (int i = 0; i < 5; ++i) b.push_back((uint8_t)('t' + i)); }
  if (kind == 19) { name_ptr(qname_off); put16(b, 1); put16(b, 1); put32(b, serial); long n = 5 + arg % 4; put16(b, (unsigned)n); for (long i = 0; i < n; ++i) b.push_back((uint8_t)(77 + i)); }   // an A record that is too long, before the good ones
  if (kind <= 2 || kind == 7 || kind == 8 || kind == 14 || kind == 13 || kind == 18 || kind == 19 || kind == 22 || kind == 23 || kind == 24) {
    for (long i = 0; i < an; ++i) {
      if (i % 2 == 0) name_ptr(qname_off); else put_name(b, l.domain);
      put16(b, 1); put16(b, 1); put32(b, serial); put16(b, 4);
      b.push_back(10); b.push_back((uint8_t)(arg & 0xff)); b.push_back((uint8_t)i); b.push_back((uint8_t)(serial & 0xff));
    }
  }
  if (kind == 24) {
    std::vector<uint8_t> nm; long n = 64 + arg; nm.push_back((uint8_t)n); for (long i = 0; i < n; ++i) nm.push_back((uint8_t)('a' + i % 26));
    put_name(nm, "example.org");
    if (arg % 2) { name_ptr(qname_off); put16(b, 5); put16(b, 1); put32(b, serial); put16(b, (unsigned)nm.size()); b.insert(b.end(), nm.begin(), nm.end()); }
    else { b.insert(b.end(), nm.begin(), nm.end()); put16(b, 1); put16(b, 1); put32(b, serial); put16(b, 4); b.push_back(10); b.push_back(24); b.push_back(24); b.push_back((uint8_t)arg); }
    b[6] = (uint8_t)((an + 1) >> 8); b[7] = (uint8_t)(an + 1);
    return b;
  }
  if (kind == 18) { name_ptr(qname_off); put16(b, 1); put16(b, 1); put32(b, serial); long n = arg % 4; put16(b, (unsigned)n); for (long i = 0; i < n; ++i) b.push_back((uint8_t)(66)); }   // a short A record (0-3 bytes of address) ends the datagram
  if (kind == 22 || kind == 23) {
    name_ptr(qname_off); put16(b, 5); put16(b, 1); put32(b, serial); put16(b, (unsigned)(20 + arg * 7));
    b.push_back(5); for (char c : std::string("alias")) b.push_back((uint8_t)c);
    if (kind == 22) { b.push_back(7); b.push_back('e'); b.push_back('x'); b.push_back('a'); }        // the datagram ends inside the label
    else { b.push_back(2); b.push_back('e'); b.push_back('x'); }                                         // ... or right behind one, without a terminator
    return b;
  }
  if (kind == 20) {
    // A records until the datagram is a few bytes longer than 4096: the last record straddles the end of the receive buffer
    long cnt = 0;
    while (b.size() < 4096 + 3 + (size_t)(arg % 12)) { name_ptr(qname_off); put16(b, 1); put16(b, 1); put32(b, serial); put16(b, 4); b.push_back(10); b.push_back(20); b.push_back((uint8_t)(cnt >> 8)); b.push_back((uint8_t)cnt); ++cnt; }
    b[6] = (uint8_t)(cnt >> 8); b[7] = (uint8_t)cnt;
    return b;
  }
  if (kind == 7 && !b.empty()) b.resize((size_t)std::min<long>((long)b.size(), 4 + arg % (long)b.size()));
  return b;
}

// strict reference decoder: the records fully and validly encoded in the datagram (prefix up to the first malformation)
struct RefRec { int type; uint32_t ttl; std::string value; };
bool ref_name(const std::vector<uint8_t> &d, size_t &pos, std::string &out) {
  size_t p = pos; bool jumped = false; int jumps = 0; out.clear();
  for (;;) {
    if (p >= d.size()) return false;
    uint8_t len = d[p];
    if (len == 0) { if (!jumped) pos = p + 1; return true; }
    if ((len & 0xc0) == 0xc0) {
      if (p + 1 >= d.size()) return false;
      size_t off = ((size_t)(len & 0x3f) << 8) | d[p + 1];
      if (off >= d.size() || ++jumps > 32) return false;   // any in-packet pointer, but a bounded number of jumps (loops are malformed)
      if (!jumped) pos = p + 2;
      jumped = true; p = off; continue;
    }
    // length octets 64..191 (top bits 01/10, reserved by RFC 1035): the client takes them for plain lengths; the bytes it reports are
    // in the datagram all the same, so the reference reads them the same way (the oracle below is an inclusion, a client that refuses them passes too)
    if (p + 1 + len > d.size()) return false;
    if (!out.empty()) out.push_back('.');
    out.append(reinterpret_cast<const char *>(&d[p + 1]), len);
    p += 1 + (size_t)len;
  }
}
std::vector<RefRec> ref_decode(const std::vector<uint8_t> &d, uint16_t &id, bool &is_response, int &rcode) {
  std::vector<RefRec> out; id = 0; is_response = false; rcode = -1;
  if (d.size() < 12) { if (d.size() >= 4) { id = (uint16_t)((d[0] << 8) | d[1]); is_response = d[2] & 0x80; rcode = d[3] & 0xf; } return out; }
  id = (uint16_t)((d[0] << 8) | d[1]); is_response = d[2] & 0x80; rcode = d[3] & 0xf;
  unsigned qd = (d[4] << 8) | d[5], an = (d[6] << 8) | d[7];
  size_t pos = 12; std::string nm;
  for (unsigned i = 0; i < qd; ++i) { if (!ref_name(d, pos, nm) || pos + 4 > d.size()) return out; pos += 4; }
  for (unsigned i = 0; i < an; ++i) {
    if (!ref_name(d, pos, nm) || pos + 10 > d.size()) return out;
    unsigned type = (d[pos] << 8) | d[pos + 1];
    uint32_t ttl = ((uint32_t)d[pos + 4] << 24) | (d[pos + 5] << 16) | (d[pos + 6] << 8) | d[pos + 7];
    unsigned rdlen = (d[pos + 8] << 8) | d[pos + 9];
    pos += 10;
    if (pos + rdlen > d.size()) return out;
    if (type == 1) {
      if (rdlen != 4) return out;
      char ip[32]; snprintf(ip, sizeof ip, "%u.%u.%u.%u", d[pos], d[pos + 1], d[pos + 2], d[pos + 3]);
      out.push_back(RefRec{1, ttl, ip});
    } else if (type == 5) {
      size_t p2 = pos; std::string cn;
      if (!ref_name(d, p2, cn) || p2 > pos + rdlen) return out;
      out.push_back(RefRec{5, ttl, cn});
    }
    pos += rdlen;
  }
  return out;
}

void send_reply(const std::vector<uint8_t> &b) {
  if (!W.have_client) return;
  sim::raw::sendto(W.srv, b.data(), b.size(), 0, (struct sockaddr *)&W.client, sizeof W.client);
  // loopback delivery is synchronous in practice; make sure the datagram is visible before the loop is probed
  if (W.client_fd >= 0) { struct pollfd p; p.fd = W.client_fd; p.events = POLLIN; for (int i = 0; i < 50; ++i) { if (sim::raw::poll1(W.client_fd, POLLIN) & POLLIN) break; usleep(100); } (void)p; }
}

// start a lookup; `retries` > 0: when it times out the same name is looked up again from inside the time-out callback
void issue_lookup(int domain, int retries) {
  size_t idx = W.lk.size();
  Lookup l; l.domain = DOMAINS[domain]; l.made = true; l.t_req = sim::now_ns(); l.seqno = W.requests_made++;
  W.lk.push_back(l);
  uint16_t id = W.dns->request(DomainName(l.domain), [idx, domain, retries](const DnsRequest::Result &res) {
    {
      Lookup &L = W.lk[idx];
      ++L.callbacks; L.t_cb = sim::now_ns(); L.status = (int)res.status;
      for (auto &a : res.a_vec) L.a.push_back({a.ttl, a.ip.toString()});
      for (auto &c : res.cname_vec) L.cname.push_back({c.ttl, c.cname.toString()});
    }
    sim::trace("lookup %zu callback status=%d a=%zu cname=%zu", idx, (int)res.status, res.a_vec.size(), res.cname_vec.size());
    if (res.status == DnsRequest::Result::Status::kTimeout && retries > 0 && W.lk.size() < 12) { sim::probe("retry_from_timeout_callback"); issue_lookup(domain, retries - 1); }
  });
  W.lk[idx].id = id;
  sim::relevant();
}

void execute(const sim::Plan &plan) {
  sim::start(plan);
  sim::name_thread("loop");
  sim::set_deadlock_handler([](const sim::DeadlockInfo &info) { sim::violation("C15/loop-never-wakes", "the loop blocks for ever before the end of the plan: " + info.summary); });
  sim::set_stepcap_handler([] { sim::violation("C15/livelock", "step cap reached"); });
  W = World();
  for (const sim::Op &op : plan.ops) if (op.kind == "wrap") { sim::set_step_cap(8000000); break; }      // 65 thousand lookups are many steps, not a livelock
  sim::poison_recv_tail(true);        // bytes of the receive buffer behind the datagram are out of bounds for the parser
  W.srv = socket(AF_INET, SOCK_DGRAM, 0);
  struct sockaddr_in sa; memset(&sa, 0, sizeof sa); sa.sin_family = AF_INET; sa.sin_addr.s_addr = htonl(INADDR_LOOPBACK); sa.sin_port = 0;
  if (bind(W.srv, (struct sockaddr *)&sa, sizeof sa) != 0) { perror("bind udp"); _exit(3); }
  socklen_t sl = sizeof sa; getsockname(W.srv, (struct sockaddr *)&sa, &sl);
  sim::redirect_udp_port(53, (struct sockaddr *)&sa, sizeof sa);
  W.loop = Loop::New(plan.get("backend") ? "select" : "epoll");
  long nsrv = std::max(1L, std::min(3L, plan.get("nsrv", 1)));
  DnsRequest::IPAddressVec ips;
  for (long i = 0; i < nsrv; ++i) ips.push_back(IPAddress::FromString("10.9.8." + std::to_string(i + 1)));
  W.dns = new DnsRequest(W.loop, ips);

  static drv::Timeline tl;
  tl = drv::Timeline();
  int64_t t = sim::now_ns();
  for (size_t i = 0; i < plan.ops.size(); ++i) {
    const sim::Op *op = &plan.ops[i];
    t += std::max(0L, std::min(8000L, op->arg(0))) * 1000000;
    if (op->kind == "req") {
      tl.at(t, [op] {
        W.loop->runInLoop([op] { issue_lookup((int)(((op->arg(1) % 6) + 6) % 6), op->arg(2) != 0 ? 1 : 0); }, "c15.req");
      }, (int)i);
    } else if (op->kind == "burst") {
      tl.at(t, [op] {
        W.loop->runInLoop([op] { long n = std::max(1L, std::min(500L, op->arg(1))); for (long k = 0; k < n; ++k) issue_lookup((int)(k % 6), 0); sim::probe("burst_lookups", n); }, "c15.burst");
      }, (int)i);
    } else if (op->kind == "wrap") {
      tl.at(t, [op] {
        W.loop->runInLoop([op] {
          long n = 65530 + std::max(0L, std::min(8L, op->arg(1)));
          long fired = 0;
          W.requests_made += n;
          for (long k = 0; k < n; ++k) { auto id = W.dns->request(DomainName("w.example"), [&fired](const DnsRequest::Result &) { ++fired; }); W.dns->cancel(id); }
          if (fired) sim::violation("C15/callback-after-cancel", "a lookup that was cancelled at once had its callback invoked");
          sim::probe("id_wraps");
        }, "c15.wrap");
      }, (int)i);
    } else if (op->kind == "cancel") {
      tl.at(t, [op] {
        W.loop->runInLoop([op] {
          if (W.lk.empty()) return;
          Lookup &L = W.lk[(size_t)(std::max(0L, op->arg(1)) % (long)W.lk.size())];
          if (!L.cancelled && L.callbacks == 0) { W.dns->cancel(L.id); L.cancelled = true; L.t_cancel = sim::now_ns(); sim::trace("cancel id=%u", L.id); }
        }, "c15.cancel");
      }, (int)i);
    } else if (op->kind == "reply") {
      tl.at(t, [op] {
        drain_queries();
        if (W.lk.empty()) return;
        Lookup &L = W.lk[(size_t)(std::max(0L, op->arg(1)) % (long)W.lk.size())];
        uint32_t serial = ++W.serial;
        std::vector<uint8_t> b = craft(L, ((op->arg(2) % 25) + 25) % 25, std::max(0L, op->arg(3)), op->arg(4), serial);
        W.sent.push_back(Sent{serial, b, sim::now_ns(), (long)(&L - &W.lk[0])});
        sim::trace("reply kind=%ld serial=%u len=%zu", op->arg(2), serial, b.size());
        sim::relevant();
        send_reply(b);
      }, (int)i);
    }
  }
  t += 12500 * 1000000LL;     // every lookup, and a retry started from a time-out callback, has timed out by then
  tl.at(t, [] { W.loop->runInLoop([] { W.loop->exitLoop(); }, "c15.exit"); });
  drv::Timeline *ptl = &tl;
  sim::set_prewait_hook([ptl](uint64_t pass) -> sim::HookResult {
    drain_queries();
    sim::HookResult r;
    if (ptl->next < ptl->acts.size()) {
      if (sim::now_ns() >= ptl->acts[ptl->next].due_ns) {
        drv::Timeline::Act &a = ptl->acts[ptl->next++];
        sim::interleave_mix(((uint64_t)pass << 16) ^ (uint64_t)(a.op_index + 1));
        a.fn(); r.acted = true;
      } else r.next_due_ns = ptl->acts[ptl->next].due_ns;
    }
    return r;
  });
  W.loop->runLoop(Loop::Mode::kForever);
  sim::set_prewait_hook(nullptr);

  // ---------------------------------------------------------------- oracle
  const int64_t S = 1000000000LL;
  for (size_t i = 0; i < W.lk.size(); ++i) {
    Lookup &L = W.lk[i];
    if (L.cancelled) {
      if (L.callbacks && L.t_cb >= L.t_cancel) sim::violation("C15/callback-after-cancel", sim::fmt("lookup #%zu: callback invoked after cancel()", i));
      continue;
    }
    if (L.callbacks != 1) { sim::violation(L.callbacks == 0 ? "C15/lookup-never-completes" : "C15/lookup-completes-twice", sim::fmt("lookup #%zu: callback invoked %d times (12.5 s after the last operation)", i, L.callbacks)); continue; }
    if (L.status == (int)DnsRequest::Result::Status::kTimeout) {
      int64_t d = L.t_cb - L.t_req;
      if (d < 4 * S || d > 5 * S + S / 1000) sim::violation("C15/timeout-at-wrong-time", sim::fmt("lookup #%zu timed out %.3f s after the request (expected within [4 s, 5 s])", i, d / 1e9));
    }
    // the status is one of the documented ones, and an error status has its cause among the datagrams sent for this lookup
    if (L.status < 0 || L.status > (int)DnsRequest::Result::Status::kFail) { sim::violation("C15/status-not-an-enumerator", sim::fmt("lookup #%zu completed with status %d, which is no Result::Status", i, L.status)); continue; }
    if (L.status == (int)DnsRequest::Result::Status::kAllDnsFail || L.status == (int)DnsRequest::Result::Status::kDomainError) {
      long server_fail = 0, name_error = 0;
      for (const Sent &s : W.sent) {
        if (s.t > L.t_cb) continue;      // (a datagram sent while no lookup was outstanding waits in the socket and can answer a later lookup that reuses its id)
        uint16_t id; bool resp; int rcode;
        ref_decode(s.bytes, id, resp, rcode);
        if (s.bytes.size() < 4 || id != L.id || !resp) continue;
        if (rcode == 3) ++name_error; else if (rcode != 0 && rcode != 1) ++server_fail;
      }
      long nsrv_ = std::max(1L, std::min(3L, plan.get("nsrv", 1)));
      if (L.status == (int)DnsRequest::Result::Status::kAllDnsFail && server_fail < nsrv_)
        sim::violation("C15/all-servers-failed-too-early", sim::fmt("lookup #%zu reported that all name servers failed after %ld failure replies; %ld servers are configured", i, server_fail, nsrv_));
      if (L.status == (int)DnsRequest::Result::Status::kDomainError && name_error == 0)
        sim::violation("C15/domain-error-without-cause", sim::fmt("lookup #%zu reported a name error, but no reply with RCODE 3 was sent for it", i));
    }
    // everything reported must be encoded in one datagram that answers this lookup
    std::set<uint32_t> ttls;
    for (auto &a : L.a) ttls.insert(a.first);
    for (auto &c : L.cname) ttls.insert(c.first);
    if (ttls.empty()) continue;
    bool ok = false; std::string why = "no datagram sent by the name servers carries these records";
    for (const Sent &s : W.sent) {
      if (!ttls.count(s.serial)) continue;
      uint16_t id; bool resp; int rcode;
      std::vector<RefRec> ref = ref_decode(s.bytes, id, resp, rcode);
      if (id != L.id || !resp || rcode != 0) { why = "the records come from a datagram that is not an answer to this lookup"; continue; }
      // multiset inclusion
      std::vector<RefRec> pool = ref; bool all = true;
      auto take = [&](int type, uint32_t ttl, const std::string &v) { for (size_t k = 0; k < pool.size(); ++k) if (pool[k].type == type && pool[k].ttl == ttl && pool[k].value == v) { pool.erase(pool.begin() + (long)k); return true; } return false; };
      for (auto &a : L.a) if (!take(1, a.first, a.second)) { all = false; why = sim::fmt("address %s (ttl %u) is not an A record encoded in the answering datagram (serial %u)", a.second.c_str(), a.first, s.serial); break; }
      if (all) for (auto &c : L.cname) if (!take(5, c.first, c.second)) { all = false; why = sim::fmt("name '%s' is not a CNAME record encoded in the answering datagram", c.second.substr(0, 60).c_str()); break; }
      if (all) {
        ok = true;
        // a reply made for another lookup can only be taken for this one when the 16-bit id has come round again
        if (s.for_lookup >= 0 && (size_t)s.for_lookup != i && std::labs(L.seqno - W.lk[(size_t)s.for_lookup].seqno) < 65535)
          sim::violation("C15/reply-for-another-lookup-accepted", sim::fmt("lookup #%zu was completed with the reply sent for lookup #%ld, made %ld requests earlier: a transaction id was handed out again while replies to its previous use can still arrive", i, s.for_lookup, std::labs(L.seqno - W.lk[(size_t)s.for_lookup].seqno)));
        break;
      }
    }
    if (!ok) sim::violation("C15/reports-data-not-in-datagram", sim::fmt("lookup #%zu: %s", i, why.c_str()));
  }
  sim::probe("queries_seen", W.queries_seen);
  sim::probe("replies_sent", (long)W.sent.size());
  delete W.dns;
  delete W.loop;
  close(W.srv);
  sim::finish();
}

const sim::Harness H = {"C15", "c15_dns", generate, execute};
}  // namespace

int main(int argc, char **argv) { return sim::harness_main(argc, argv, H); }
