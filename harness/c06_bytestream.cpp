// C06 — BufferedFd / TcpServer / TcpClient preserve the byte stream under short I/O, EAGAIN and slow peers.
// Single-loop mode; the peer is a raw descriptor owned by the driver (pre-wait hook).
#include <sim.h>
#include "loopdrv.h"

#include <tbox/event/loop.h>
#include <tbox/network/buffered_fd.h>
#include <tbox/network/tcp_server.h>
#include <tbox/network/tcp_client.h>
#include <tbox/network/sockaddr.h>
#include <tbox/util/fd.h>
#include <tbox/base/log_impl.h>

#include <errno.h>
#include <fcntl.h>
#include <sys/ioctl.h>
#include <sys/socket.h>
#include <sys/un.h>
#include <unistd.h>

#include <algorithm>
#include <string>
#include <vector>

using namespace tbox;
using namespace tbox::event;
using namespace tbox::network;

namespace {

// stream contents: byte at offset i of a direction is f(dir, i)
inline unsigned char tx_byte(uint64_t i) { return (unsigned char)((i * 131 + (i >> 8) * 7 + 17) & 0xff); }   // tbox -> peer
inline unsigned char rx_byte(uint64_t i) { return (unsigned char)((i * 89 + (i >> 7) * 13 + 5) & 0xff); }    // peer -> tbox

// ops (all outside): <kind> <dt_ms> <n> <x>
//   presend n   (mode 0 only, before enable)      enable       send n      prd n      pwr n
//   policy threshold consume(0 all,1 k bytes,2 nothing) k shrink_in_cb        pclose      pwrclose n      disconnect     advance ms
//   chain n k   the next k send-complete notifications each send n more bytes from inside the callback
//   shrink which(0 receive,1 send,2 both)   BufferedFd::shrinkRecvBuffer()/shrinkSendBuffer() (mode 0)
//   bind / unbind   (modes 0 and 2) received bytes go to a bound ByteStream instead of the receive callback: the sink must see the stream
//                continue exactly where the callback stopped consuming
//   pause n m    (mode 0) BufferedFd::disable(), then n bytes are sent and the peer writes m bytes while it is paused; the next op enables it again
//   xdisc n how order   the application disconnects in the very loop pass in which the connection's own descriptor has something pending:
//                the peer writes n bytes (how 0), writes and closes (1) or just closes (2); order 0 posts the disconnect first, 1 the peer acts first
void generate(sim::Rng &r, uint64_t seed, const std::string &tier, sim::Plan &p) {
  bool thorough = tier == "thorough";
  long mode = (long)r.below(3);
  p.cfg["mode"] = mode;
  p.cfg["backend"] = r.below(2);
  p.cfg["sndbuf"] = r.chance(500) ? r.pick((const long[]){2048, 4096, 16384}) : 0;   // mode 0 only
  static const long sizes[] = {1, 1, 2, 3, 100, 1023, 1024, 1025, 4096, 65536, 65537, 300000};
  auto pick_size = [&]() -> long {
    if (thorough && r.chance(60)) return r.range(1000000, 3000000);
    return sizes[r.below(r.chance(150) ? 12 : 10)];
  };
  auto fset = [&](sim::Op &op) {
    if (r.chance(550)) {
      op.fseed = r.next() >> 2;
      op.fmask = 0;
      if (r.chance(600)) op.fmask |= sim::F_SHORT_WRITE;
      if (r.chance(400)) op.fmask |= sim::F_WRITE_EAGAIN;
      if (r.chance(600)) op.fmask |= sim::F_SHORT_READ;
      if (r.chance(200)) op.fmask |= sim::F_READ_EAGAIN;
      if (r.chance(200)) op.fmask |= sim::F_LATE_WAKE;
    }
  };
  int n = (int)r.range(2, thorough ? 40 : 20);
  bool enabled = mode != 0;
  if (mode == 0) {
    int pre = (int)r.range(0, 2);
    for (int i = 0; i < pre; ++i) { sim::Op op; op.kind = "presend"; op.a = {0, pick_size(), 0}; fset(op); p.ops.push_back(op); }
    if (r.chance(300)) { sim::Op op; op.kind = "pwr"; op.a = {0, pick_size(), 0}; p.ops.push_back(op); }
  }
  bool closed = false;
  // TcpClient with automatic reconnection: the peer hangs up in the middle and accepts the client's next connection
  bool reconn = mode == 2 && r.chance(300);
  p.cfg["reconn"] = reconn;
  bool reconnected = false;
  for (int i = 0; i < n; ++i) {
    sim::Op op;
    long dt = r.chance(500) ? 0 : r.range(1, 10);
    if (!enabled) { op.kind = "enable"; op.a = {dt, 0, 0}; fset(op); p.ops.push_back(op); enabled = true; continue; }
    unsigned x = (unsigned)r.below(100);
    if (x < 30) { op.kind = "send"; op.a = {dt, pick_size(), 0}; }
    else if (x < 35) { op.kind = "chain"; op.a = {dt, pick_size(), r.range(1, 4)}; }
    else if (x < 57 || (x < 60 && mode != 0)) { op.kind = "prd"; op.a = {dt, r.chance(300) ? r.range(1, 100) : pick_size() * 2, 0}; }
    else if (x < 60) { op.kind = "pause"; op.a = {dt, r.chance(600) ? pick_size() : 0, r.chance(500) ? pick_size() : 0}; enabled = false; }
    else if (x < 80) { op.kind = "pwr"; op.a = {dt, pick_size(), 0}; }
    else if (x >= 86 && x < 88 && mode != 1) { op.kind = r.chance(600) ? "bind" : "unbind"; op.a = {dt, 0, 0}; }
    else if (x < 88) { op.kind = "policy"; op.a = {dt, r.pick((const long[]){0, 0, 1, 1, 2, 10, 2000}), (long)r.below(3), r.range(1, 3000), r.chance(350) ? 1 : 0}; }
    else if (x < 90) { op.kind = "shrink"; op.a = {dt, (long)r.below(3), 0}; }
    else if (x < 93) { op.kind = "advance"; op.a = {dt, r.range(1, 200), 0}; }
    else if (reconn && !reconnected && !closed && x >= 90 && x < 97 && i >= 2) { op.kind = "preconn"; op.a = {dt, pick_size(), 0}; reconnected = true; }
    else if (x < 95 && !closed && i > n / 2) { op.kind = "pclose"; op.a = {dt, 0, 0}; closed = true; }
    else if (x < 97 && !closed && i > n / 2) { op.kind = "pwrclose"; op.a = {dt, pick_size(), 0}; closed = true; }   // last bytes and close pending in the same wake-up
    else if (x < 99 && !closed && i > n / 2) {
      if (mode != 0 && r.chance(600)) { op.kind = "xdisc"; op.a = {dt, pick_size(), (long)r.below(3), (long)r.below(2)}; }
      else { op.kind = "disconnect"; op.a = {dt, 0, 0}; }
      closed = true;
    }
    else { op.kind = "prd"; op.a = {dt, 100000, 0}; }
    fset(op);
    p.ops.push_back(op);
  }
  if (r.chance(250)) p.cfg["log_errno"] = 1;      // drawn last: older seeds keep their plans
  p.sched.strategy = "none";
}

struct World {
  Loop *loop = nullptr;
  const sim::Plan *plan = nullptr;
  long mode = 0;
  // tbox side
  BufferedFd *bfd = nullptr;
  TcpServer *server = nullptr;
  TcpServer::ConnToken token;
  TcpClient *client = nullptr;
  int listen_fd = -1;          // mode 2: driver's raw listening socket
  bool connected = false;      // modes 1,2
  bool bfd_enabled = false;
  // peer
  int pfd = -1;
  bool peer_closed = false, local_disconnected = false;
  // tx direction (tbox -> peer)
  uint64_t tx_sent = 0;        // bytes handed to send() and accepted
  uint64_t tx_peer_read = 0;   // bytes the peer has read (verified)
  // rx direction (peer -> tbox)
  uint64_t rx_written = 0;     // bytes the peer has written
  uint64_t rx_consumed = 0;    // bytes consumed by the receive callback
  uint64_t rx_presented = 0;   // highest stream offset ever shown to the receive callback
  long threshold = 0, max_threshold = 0, consume_mode = 0, consume_k = 1;
  long closed_reports = 0;
  long send_completes = 0;
  long chain_n = 0, chain_left = 0;
  bool shrink_in_cb = false;
  long cb_version = 0;          // the receive callback installed last
  bool awaiting_reconnect = false; long reconnects = 0;
  bool finished = false;
  std::string path;
};
World W;

void set_nonblock(int fd) { int fl = fcntl(fd, F_GETFL); fcntl(fd, F_SETFL, fl | O_NONBLOCK); }

long peer_unread() {
  int n = 0;
  if (W.pfd < 0 || ioctl(W.pfd, FIONREAD, &n) != 0) return 0;
  return n;
}

void on_receive(Buffer &buff);
void after_disconnect(const char *what);
// a bound receiver: takes everything it is given
struct Sink : public ByteStream {
  void setReceiveCallback(const ReceiveCallback &, size_t) override {}
  void setSendCompleteCallback(const SendCompleteCallback &) override {}
  bool send(const void *data_ptr, size_t n) override;
  void bind(ByteStream *) override {}
  void unbind() override {}
  Buffer *getReceiveBuffer() override { return nullptr; }
};
Sink g_sink;
// every installation of the receive callback gets a version: data must go to the one installed last
std::function<void(Buffer &)> make_receive_cb() {
  long v = ++W.cb_version;
  return [v](Buffer &b) {
    if (v != W.cb_version) { sim::violation("C06/stale-receive-callback", sim::fmt("received bytes were presented to receive callback #%ld although #%ld had been installed since", v, W.cb_version)); return; }
    on_receive(b);
  };
}

void after_disconnect(const char *what) {
  if (W.local_disconnected && W.mode != 0)
    sim::violation("C06/callback-after-disconnect", sim::fmt("%s was reported for a connection the application had already disconnected", what));
}

void on_receive(Buffer &buff) {
  after_disconnect("received data");
  size_t n = buff.readableSize();
  const uint8_t *p = buff.readableBegin();
  sim::trace("recv cb readable=%zu consumed=%lu", n, (unsigned long)W.rx_consumed);
  if (W.rx_consumed + n > W.rx_written) {
    sim::violation("C06/receive-more-than-written", sim::fmt("receive buffer shows %zu bytes at offset %lu but the peer has written only %lu", n, (unsigned long)W.rx_consumed, (unsigned long)W.rx_written));
    return;
  }
  for (size_t i = 0; i < n; ++i) {
    if (p[i] != rx_byte(W.rx_consumed + i)) {
      sim::violation("C06/receive-stream-corrupt", sim::fmt("byte %zu of the receive buffer (stream offset %lu) differs from what the peer wrote: bytes were lost, duplicated, reordered or unconsumed bytes were not re-presented", i, (unsigned long)(W.rx_consumed + i)));
      return;
    }
  }
  if (W.rx_consumed + n > W.rx_presented) W.rx_presented = W.rx_consumed + n;
  size_t take = 0;
  if (W.consume_mode == 0) take = n;
  else if (W.consume_mode == 1) take = std::min<size_t>(n, (size_t)W.consume_k);
  buff.hasRead(take);
  W.rx_consumed += take;
  if (W.shrink_in_cb) buff.shrink();
  sim::relevant();
}

bool Sink::send(const void *data_ptr, size_t n) {
  after_disconnect("received data (to the bound receiver)");
  const uint8_t *p = static_cast<const uint8_t *>(data_ptr);
  sim::trace("sink gets %zu bytes at offset %lu", n, (unsigned long)W.rx_consumed);
  if (W.rx_consumed + n > W.rx_written) { sim::violation("C06/receive-more-than-written", sim::fmt("the bound receiver was given %zu bytes at offset %lu but the peer has written only %lu", n, (unsigned long)W.rx_consumed, (unsigned long)W.rx_written)); return true; }
  for (size_t i = 0; i < n; ++i) if (p[i] != rx_byte(W.rx_consumed + i)) {
    sim::violation("C06/receive-stream-corrupt", sim::fmt("byte %zu handed to the bound receiver (stream offset %lu) differs from what the peer wrote: bytes were lost, duplicated or reordered", i, (unsigned long)(W.rx_consumed + i)));
    return true;
  }
  W.rx_consumed += n;
  if (W.rx_consumed > W.rx_presented) W.rx_presented = W.rx_consumed;
  sim::relevant();
  return true;
}

bool tbox_send(long n);
void on_send_complete() {
  after_disconnect("send-complete");
  ++W.send_completes;
  uint64_t accepted = W.tx_peer_read + (uint64_t)peer_unread();
  sim::trace("send complete sent=%lu accepted=%lu", (unsigned long)W.tx_sent, (unsigned long)accepted);
  if (!W.peer_closed && accepted != W.tx_sent)
    sim::violation("C06/send-complete-early", sim::fmt("send-complete fired although only %lu of the %lu bytes queued so far have been written to the descriptor", (unsigned long)accepted, (unsigned long)W.tx_sent));
  if (W.chain_left > 0 && !W.local_disconnected && !W.peer_closed) { --W.chain_left; tbox_send(W.chain_n); sim::probe("chained_sends"); }
}

void on_closed(const char *how) {
  after_disconnect("a close");
  ++W.closed_reports;
  sim::trace("closed report (%s) #%ld presented=%lu written=%lu", how, W.closed_reports, (unsigned long)W.rx_presented, (unsigned long)W.rx_written);
  if (!W.peer_closed) { sim::violation("C06/close-reported-without-close", "peer close reported although the peer has not closed"); return; }
  if (W.closed_reports > 1) sim::violation("C06/close-reported-twice", "peer close reported more than once");
  if (W.max_threshold <= 1 && W.rx_presented != W.rx_written)
    sim::violation("C06/close-before-data", sim::fmt("peer close reported although only %lu of the %lu bytes the peer wrote before closing have been presented to the receive callback", (unsigned long)W.rx_presented, (unsigned long)W.rx_written));
  // with a threshold: whenever the unconsumed bytes reach it (left-overs count), the last arrival must have been followed by a callback
  else if (W.max_threshold > 1 && W.rx_written - W.rx_consumed >= (uint64_t)W.max_threshold && W.rx_presented != W.rx_written)
    sim::violation("C06/close-before-data", sim::fmt("peer close reported with %lu unconsumed bytes in the receive buffer (threshold %ld), of which the last %lu were never presented to the receive callback", (unsigned long)(W.rx_written - W.rx_consumed), W.max_threshold, (unsigned long)(W.rx_written - W.rx_presented)));
}

bool tbox_send(long n) {
  std::string data((size_t)n, '\0');
  for (long i = 0; i < n; ++i) data[(size_t)i] = (char)tx_byte(W.tx_sent + (uint64_t)i);
  bool ok = false;
  if (W.mode == 0) ok = W.bfd && W.bfd->send(data.data(), data.size());
  else if (W.mode == 1) ok = W.connected && W.server->send(W.token, data.data(), data.size());
  else ok = W.connected && W.client->send(data.data(), data.size());
  if (ok) W.tx_sent += (uint64_t)n;
  sim::trace("send %ld -> %d", n, (int)ok);
  sim::relevant();
  return ok;
}

void peer_read(long n) {
  if (W.pfd < 0 || W.peer_closed) return;
  std::vector<unsigned char> buf(65536);
  long total = 0;
  while (total < n) {
    size_t want = std::min<size_t>(buf.size(), (size_t)(n - total));
    ssize_t r = sim::raw::read(W.pfd, buf.data(), want);
    if (r <= 0) break;
    for (ssize_t i = 0; i < r; ++i) {
      if (buf[(size_t)i] != tx_byte(W.tx_peer_read + (uint64_t)i)) {
        sim::violation("C06/peer-stream-corrupt", sim::fmt("byte at stream offset %lu read by the peer is not the byte that was sent at that offset (lost, duplicated or reordered data)", (unsigned long)(W.tx_peer_read + (uint64_t)i)));
        W.tx_peer_read += (uint64_t)r;
        return;
      }
    }
    W.tx_peer_read += (uint64_t)r;
    total += r;
  }
  if (W.tx_peer_read > W.tx_sent) sim::violation("C06/peer-read-more-than-sent", "the peer read more bytes than were handed to send()");
  sim::trace("peer read %ld (total %lu)", total, (unsigned long)W.tx_peer_read);
}

void peer_write(long n) {
  if (W.pfd < 0 || W.peer_closed) return;
  std::vector<unsigned char> buf((size_t)std::min<long>(n, 65536));
  long total = 0;
  while (total < n) {
    size_t chunk = std::min<size_t>(buf.size(), (size_t)(n - total));
    for (size_t i = 0; i < chunk; ++i) buf[i] = rx_byte(W.rx_written + i);
    ssize_t w = sim::raw::send(W.pfd, buf.data(), chunk, MSG_NOSIGNAL);
    if (w <= 0) break;
    W.rx_written += (uint64_t)w;
    total += w;
  }
  sim::trace("peer wrote %ld (total %lu)", total, (unsigned long)W.rx_written);
}

void connect_peer_mode1() {
  int fd = socket(AF_UNIX, SOCK_STREAM, 0);
  struct sockaddr_un sa; memset(&sa, 0, sizeof sa); sa.sun_family = AF_UNIX;
  strncpy(sa.sun_path, W.path.c_str(), sizeof(sa.sun_path) - 1);
  if (sim::raw::connect(fd, (struct sockaddr *)&sa, sizeof sa) != 0) { perror("connect"); _exit(3); }
  set_nonblock(fd);
  W.pfd = fd;
}

// the client connects again right after the hang-up; the peer accepts once the close has been reported: a new connection, new streams
void maybe_accept_reconnect() {
  if (!W.awaiting_reconnect || W.closed_reports < 1 || W.listen_fd < 0) return;
  int fd = sim::raw::accept(W.listen_fd, nullptr, nullptr);
  if (fd < 0) return;
  set_nonblock(fd);
  if (W.closed_reports != 1) sim::violation("C06/close-reported-twice", sim::fmt("the peer closed; the close was reported %ld times", W.closed_reports));
  W.pfd = fd; W.peer_closed = false; W.awaiting_reconnect = false; ++W.reconnects;
  W.tx_sent = W.tx_peer_read = 0; W.rx_written = W.rx_consumed = W.rx_presented = 0; W.closed_reports = 0; W.max_threshold = W.threshold;
  W.chain_left = 0;
  sim::trace("peer accepted the reconnection");
  sim::probe("reconnections");
}

void apply(const sim::Op &op) {
  const std::string &k = op.kind;
  long n = op.arg(1);
  if (k == "presend") { if (W.mode == 0 && !W.bfd_enabled) tbox_send(std::max(1L, std::min(4000000L, n))); }
  else if (k == "enable") { if (W.mode == 0 && W.bfd && !W.bfd_enabled && !W.local_disconnected) { W.bfd->enable(); W.bfd_enabled = true; sim::trace("enable"); } }
  else if (k == "pause") {
    if (W.mode == 0 && W.bfd && W.bfd_enabled && !W.local_disconnected && !W.peer_closed) {
      W.bfd->disable(); W.bfd_enabled = false; sim::probe("pauses"); sim::trace("pause");
      if (op.arg(1) > 0) tbox_send(std::max(1L, std::min(4000000L, op.arg(1))));
      if (op.arg(2) > 0) peer_write(std::max(1L, std::min(4000000L, op.arg(2))));
    }
  }
  else if (k == "send") { if (!W.local_disconnected && !(W.mode == 0 && !W.bfd)) tbox_send(std::max(1L, std::min(4000000L, n))); }
  else if (k == "policy") {
    W.threshold = std::max(0L, n); W.consume_mode = op.arg(2) % 3; W.consume_k = std::max(1L, op.arg(3)); W.shrink_in_cb = (op.arg(4) & 1) != 0;
    if (W.mode == 0) { if (W.bfd) W.bfd->setReceiveCallback(make_receive_cb(), (size_t)W.threshold); }
    else if (W.mode == 2) W.client->setReceiveCallback(make_receive_cb(), (size_t)W.threshold);
    // TcpServer applies its threshold to new connections only: keep the policy's consume part, not the threshold
    if (W.mode == 1) W.threshold = 0;
    W.max_threshold = std::max(W.max_threshold, W.threshold);
    sim::trace("policy thr=%ld mode=%ld k=%ld", W.threshold, W.consume_mode, W.consume_k);
  } else if (k == "bind" || k == "unbind") {
    bool b = k == "bind";
    if (W.local_disconnected) return;
    if (W.mode == 0 && W.bfd) { if (b) W.bfd->bind(&g_sink); else W.bfd->unbind(); }
    else if (W.mode == 2) { if (b) W.client->bind(&g_sink); else W.client->unbind(); }
    else return;
    sim::probe(b ? "binds" : "unbinds");
    sim::trace("%s", k.c_str());
  } else if (k == "chain") { W.chain_n = std::max(1L, std::min(4000000L, n)); W.chain_left = std::max(0L, std::min(8L, op.arg(2))); }
  else if (k == "shrink") {
    if (W.mode == 0 && W.bfd) { long w = ((op.arg(1) % 3) + 3) % 3; if (w != 1) W.bfd->shrinkRecvBuffer(); if (w != 0) W.bfd->shrinkSendBuffer(); sim::probe("shrinks"); }
  } else if (k == "disconnect" || k == "xdisc") {
    if (W.local_disconnected) return;
    W.local_disconnected = true;
    if (W.mode == 0) { if (W.bfd) { W.bfd->disable(); BufferedFd *b = W.bfd; W.bfd = nullptr; W.loop->runNext([b] { delete b; }, "c06.del"); } }
    else if (W.mode == 1) { if (W.connected) W.server->disconnect(W.token); W.connected = false; }
    else { W.client->stop(); W.connected = false; }
    sim::trace("local disconnect");
  }
}

void execute(const sim::Plan &plan) {
  sim::start(plan);
  sim::name_thread("loop");
  sim::fault_all_sockets(true);
  sim::fault_late_max_ms(20);
  sim::set_deadlock_handler([](const sim::DeadlockInfo &info) { sim::violation("C06/loop-never-wakes", "the loop blocks for ever before the end of the plan: " + info.summary); });
  sim::set_stepcap_handler([] { sim::violation("C06/livelock", "the loop spins without progress (step cap)"); });
  sim::set_step_cap(400000);
  W = World();
  W.plan = &plan;
  // cfg log_errno: a log channel is installed whose output function leaves another value in errno (a sink whose own I/O failed, as
  // any function is allowed to): no decision of the stream code may depend on errno surviving a log statement
  uint32_t log_chan = 0;
  if (plan.get("log_errno")) { log_chan = LogAddPrintfFunc([](const LogContent *, void *) { errno = EBADF; }, nullptr); sim::probe("errno_clobbering_log_channel"); }
  W.mode = std::max(0L, std::min(2L, plan.get("mode")));
  W.loop = Loop::New(plan.get("backend") ? "select" : "epoll");
  W.path = std::string(sim::run_dir()) + "/s.sock";

  if (W.mode == 0) {
    int sv[2];
    if (socketpair(AF_UNIX, SOCK_STREAM, 0, sv) != 0) { perror("socketpair"); _exit(3); }
    set_nonblock(sv[1]);
    long sb = plan.get("sndbuf");
    if (sb > 0) { int v = (int)sb; setsockopt(sv[0], SOL_SOCKET, SO_SNDBUF, &v, sizeof v); }
    W.pfd = sv[1];
    W.bfd = new BufferedFd(W.loop);
    W.bfd->initialize(util::Fd(sv[0]));
    W.bfd->setReceiveCallback(make_receive_cb(), 0);
    W.bfd->setSendCompleteCallback(on_send_complete);
    W.bfd->setReadZeroCallback([] {
      on_closed("read-zero");
      // a user of a raw BufferedFd must stop it on end-of-file, otherwise the level-triggered event repeats
      if (W.bfd) W.bfd->disable();
    });
  } else if (W.mode == 1) {
    W.server = new TcpServer(W.loop);
    if (!W.server->initialize(SockAddr::FromString(W.path), 4)) { fprintf(stderr, "server init failed\n"); _exit(3); }
    W.server->setConnectedCallback([](const TcpServer::ConnToken &t) { W.token = t; W.connected = true; sim::trace("server: connected"); });
    W.server->setDisconnectedCallback([](const TcpServer::ConnToken &) { W.connected = false; on_closed("server-disconnected"); });
    W.server->setReceiveCallback([](const TcpServer::ConnToken &, Buffer &b) { on_receive(b); }, 0);
    W.server->setSendCompleteCallback([](const TcpServer::ConnToken &) { on_send_complete(); });
    W.server->start();
  } else {
    int lfd = socket(AF_UNIX, SOCK_STREAM, 0);
    struct sockaddr_un sa; memset(&sa, 0, sizeof sa); sa.sun_family = AF_UNIX;
    strncpy(sa.sun_path, W.path.c_str(), sizeof(sa.sun_path) - 1);
    unlink(W.path.c_str());
    if (bind(lfd, (struct sockaddr *)&sa, sizeof sa) != 0 || listen(lfd, 4) != 0) { perror("bind/listen"); _exit(3); }
    set_nonblock(lfd);
    W.listen_fd = lfd;
    W.client = new TcpClient(W.loop);
    W.client->initialize(SockAddr::FromString(W.path));
    W.client->setAutoReconnect(plan.get("reconn") != 0);
    W.client->setConnectedCallback([] { W.connected = true; sim::trace("client: connected"); });
    W.client->setDisconnectedCallback([] { W.connected = false; on_closed("client-disconnected"); });
    W.client->setReceiveCallback(make_receive_cb(), 0);
    W.client->setSendCompleteCallback(on_send_complete);
    W.client->start();
  }

  static drv::Timeline tl;
  tl = drv::Timeline();
  int64_t t = sim::now_ns();
  if (W.mode == 1) tl.at(t, [] { connect_peer_mode1(); });
  if (W.mode == 2) tl.at(t, [] {
    int fd = sim::raw::accept(W.listen_fd, nullptr, nullptr);
    if (fd >= 0) { set_nonblock(fd); W.pfd = fd; }
  });
  t += 1000000;   // connection set-up gets one millisecond
  for (size_t i = 0; i < plan.ops.size(); ++i) {
    const sim::Op *op = &plan.ops[i];
    t += std::max(0L, std::min(1000L, op->arg(0))) * 1000000;
    tl.at(t, [op] {
      sim::fault_scope(0, 0);
      maybe_accept_reconnect();
      sim::fault_scope(op->fseed, op->fmask);
      const std::string &k = op->kind;
      if (k == "prd") peer_read(std::max(1L, op->arg(1)));
      else if (k == "pwr") peer_write(std::max(1L, std::min(4000000L, op->arg(1))));
      else if (k == "advance") sim::advance_ms(std::max(1L, std::min(1000L, op->arg(1))));
      else if (k == "pclose") { if (W.pfd >= 0 && !W.peer_closed) { close(W.pfd); W.peer_closed = true; sim::trace("peer close"); } }
      else if (k == "preconn") {
        // last bytes, hang-up; the client connects again at once and the peer accepts that connection a little later
        if (W.mode == 2 && W.pfd >= 0 && !W.peer_closed && !W.awaiting_reconnect) { peer_write(std::max(1L, std::min(4000000L, op->arg(1)))); close(W.pfd); W.peer_closed = true; W.awaiting_reconnect = true; sim::trace("peer write+close, will accept the reconnection"); }
      }
      else if (k == "xdisc") {
        long how = ((op->arg(2) % 3) + 3) % 3; bool peer_first = (op->arg(3) & 1) != 0;
        auto peer_act = [op, how] {
          if (W.pfd < 0 || W.peer_closed) return;
          if (how != 2) peer_write(std::max(1L, std::min(4000000L, op->arg(1))));
          if (how != 0) { close(W.pfd); W.peer_closed = true; sim::trace("peer close (with a local disconnect in the same pass)"); }
        };
        if (peer_first) peer_act();
        W.loop->runInLoop([op] { apply(*op); }, "c06.xdisc");
        if (!peer_first) peer_act();
        sim::probe("disconnects_with_pending_events");
      }
      else if (k == "pwrclose") { if (W.pfd >= 0 && !W.peer_closed) { peer_write(std::max(1L, std::min(4000000L, op->arg(1)))); close(W.pfd); W.peer_closed = true; sim::trace("peer write+close"); } }
      else W.loop->runInLoop([op] { apply(*op); }, "c06.op");
    }, (int)i);
  }
  // quiescence: the peer drains (and nothing else happens) until no byte moves any more
  // (a small SO_SNDBUF lets only a few KiB move per step, so the number of steps follows the volume to be moved)
  long planned = 0;
  for (const sim::Op &op : plan.ops) {
    if (op.kind == "send" || op.kind == "presend") planned += std::max(1L, std::min(4000000L, op.arg(1)));
    if (op.kind == "pause" && op.arg(1) > 0) planned += std::max(1L, std::min(4000000L, op.arg(1)));
    if (op.kind == "chain") planned += std::max(1L, std::min(4000000L, op.arg(1))) * std::max(0L, std::min(8L, op.arg(2)));
  }
  long drain_steps = 400 + std::min(60000L, planned / 1024);
  for (long k = 0; k < drain_steps; ++k) {
    t += 1000000;
    tl.at(t, [] { sim::fault_scope(0, 0); maybe_accept_reconnect(); peer_read(1 << 30); });
  }
  t += 1000000;
  tl.at(t, [] { W.loop->runInLoop([] { W.finished = true; W.loop->exitLoop(); }, "c06.exit"); });
  tl.install();
  W.loop->runLoop(Loop::Mode::kForever);
  sim::set_prewait_hook(nullptr);

  // ---------------------------------------------------------------- end-of-run oracle
  if (sim::violation_count() == 0) {
    if (!W.peer_closed && !W.local_disconnected) {
      bool sending = (W.mode == 0) ? W.bfd_enabled : true;    // a descriptor that was never enabled owes nothing
      if (sending && W.tx_peer_read != W.tx_sent)
        sim::violation("C06/sent-bytes-not-delivered", sim::fmt("the run is quiescent and the peer has drained its socket, yet only %lu of the %lu bytes accepted by send() reached it (%s)",
                                                               (unsigned long)W.tx_peer_read, (unsigned long)W.tx_sent, (W.mode == 0 && !W.bfd_enabled) ? "descriptor never enabled" : "bytes stuck in the send buffer"));
      // everything the peer wrote has been read into the receive buffer
      Buffer *rb = nullptr;
      if (W.mode == 0) rb = W.bfd ? W.bfd->getReceiveBuffer() : nullptr;
      else if (W.mode == 1) rb = W.connected ? W.server->getClientReceiveBuffer(W.token) : nullptr;
      else rb = W.connected ? W.client->getReceiveBuffer() : nullptr;
      bool receiving = (W.mode == 0) ? W.bfd_enabled : W.connected;
      if (rb && receiving) {
        uint64_t have = W.rx_consumed + rb->readableSize();
        if (have != W.rx_written)
          sim::violation("C06/received-bytes-missing", sim::fmt("the peer wrote %lu bytes, but consumed (%lu) + buffered (%zu) is %lu", (unsigned long)W.rx_written, (unsigned long)W.rx_consumed, rb->readableSize(), (unsigned long)have));
        else {
          const uint8_t *p = rb->readableBegin();
          for (size_t i = 0; i < rb->readableSize(); ++i)
            if (p[i] != rx_byte(W.rx_consumed + i)) { sim::violation("C06/receive-stream-corrupt", "buffered receive data differs from what the peer wrote"); break; }
          if (W.max_threshold > 1 && rb->readableSize() >= (size_t)W.max_threshold) {
            sim::probe("threshold_reached_by_leftovers");
            if (W.rx_presented != W.rx_written)
              sim::violation("C06/data-held-back", sim::fmt("%zu unconsumed bytes sit in the receive buffer (threshold %ld) and the last %lu of them were never presented to the receive callback: left-overs count towards the threshold", rb->readableSize(), W.max_threshold, (unsigned long)(W.rx_written - W.rx_presented)));
          }
        }
      }
    }
    if (W.peer_closed && !W.local_disconnected) {
      bool was_receiving = (W.mode == 0) ? W.bfd_enabled : true;
      if (was_receiving && W.closed_reports != 1 && (W.mode != 0 || W.bfd_enabled))
        sim::violation(W.closed_reports == 0 ? "C06/close-not-reported" : "C06/close-reported-twice", sim::fmt("the peer closed; the close was reported %ld times", W.closed_reports));
    }
  }
  sim::probe("tx_bytes", (long)W.tx_sent);
  sim::probe("rx_bytes", (long)W.rx_written);
  sim::probe("send_completes", W.send_completes);
  if (W.bfd) { delete W.bfd; W.bfd = nullptr; }
  if (W.server) { delete W.server; W.server = nullptr; }
  if (W.client) { delete W.client; W.client = nullptr; }
  delete W.loop;
  if (W.pfd >= 0 && !W.peer_closed) close(W.pfd);
  if (W.listen_fd >= 0) close(W.listen_fd);
  if (log_chan) LogRemovePrintfFunc(log_chan);
  sim::finish();
}

const sim::Harness H = {"C06", "c06_bytestream", generate, execute};
}  // namespace

int main(int argc, char **argv) { return sim::harness_main(argc, argv, H); }
