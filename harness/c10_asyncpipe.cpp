// C10 — util::AsyncPipe under the deterministic scheduler (threads mode).
// Producers and the pipe's own back-end thread are simulated threads; the
// sink callback parses nothing itself, it only records what it was given.
#include <sim.h>

#include <tbox/util/async_pipe.h>

#include <string.h>
#include <algorithm>
#include <string>
#include <thread>
#include <vector>

using tbox::util::AsyncPipe;

namespace {

enum HK { H_APP_INV = 1, H_APP_RET, H_CB_ENTER, H_CB_EXIT, H_CLEANUP_INV, H_CLEANUP_RET, H_PROD_DONE };
enum Cell { C_IN_CLEANUP = 1, C_PRODUCERS_LEFT = 2, C_IN_CB = 3 };

void generate(sim::Rng &r, uint64_t seed, const std::string &tier, sim::Plan &p) {
  bool thorough = tier == "thorough";
  static const long sizes[] = {1, 2, 3, 7, 16, 50, 64, 500, 4096};
  long bs = sizes[r.below(thorough ? 9 : 7)];
  long mn = r.range(1, 3), mx = r.range(mn, 6);
  p.cfg["buff_size"] = bs;
  p.cfg["buff_min"] = mn;
  p.cfg["buff_max"] = mx;
  p.cfg["interval"] = r.pick((const long[]){1, 2, 5, 10, 50});
  long nprod = r.range(1, 4);
  p.cfg["nprod"] = nprod;
  p.cfg["cb_sleep_ms"] = r.chance(400) ? r.range(1, 4) : 0;
  p.cfg["cb_yields"] = r.range(0, 2);
  p.cfg["late_cb_ms"] = r.chance(250) ? r.range(1, 120) : 0;     // the sink is installed that long after initialize(): the back end has been through idle rounds by then
  unsigned fmask = 0;
  if (r.chance(500)) fmask |= sim::F_SPURIOUS;
  if (r.chance(500)) fmask |= sim::F_COND_ANY;
  if (r.chance(400)) fmask |= sim::F_LATE_WAKE;
  if (r.chance(300)) fmask |= sim::F_STALL;
  p.cfg["fmask"] = fmask;
  p.cfg["fseed"] = (long)(r.next() >> 2);
  p.cfg["starve_max"] = nprod + 1;
  p.cfg["pct_horizon"] = 800;
  int total = (int)r.range(1, thorough ? 60 : 24);
  for (int i = 0; i < total; ++i) {
    sim::Op op;
    long prod = (long)r.below((uint64_t)nprod);
    // payload sizes relative to the buffer size: 0, 1, size-7..size (header is 6 bytes), 10*size
    long len;
    unsigned x = (unsigned)r.below(100);
    if (x < 10) len = 0;
    else if (x < 30) len = 1;
    else if (x < 60) len = std::max(0L, bs - 6 + r.range(-2, 2));
    else if (x < 80) len = r.range(0, bs * 2);
    else if (x < 92) len = bs * r.range(3, 10);
    else len = r.range(0, 40);
    if (len > 20000) len = 20000;
    if (r.chance(250)) { op.kind = "applock"; op.a = {prod, len, r.range(0, 2), r.range(0, 3)}; }   // header and body as two lockless appends
    else { op.kind = "app"; op.a = {prod, len, r.range(0, 2), r.range(0, 3)}; }                    // [prod, len, yields_after, sleep_after_ms]
    p.ops.push_back(op);
    // session boundary: producers join, cleanup(), everything delivered, initialize() again on the same object
    if (i + 1 < total && r.chance(40)) { sim::Op cut; cut.kind = "cut"; cut.a = {-1, 0, 0, 0}; p.ops.push_back(cut); }
  }
  sim::draw_sched(seed, p);
}

static unsigned char payload_byte(long prod, long seq, long i) { return (unsigned char)(prod * 131 + seq * 31 + i * 7 + 3); }

static std::string make_frame(long prod, long seq, long len) {
  std::string f;
  f.push_back((char)0xA5);
  f.push_back((char)prod);
  f.push_back((char)(seq & 0xff));
  f.push_back((char)((seq >> 8) & 0xff));
  f.push_back((char)(len & 0xff));
  f.push_back((char)((len >> 8) & 0xff));
  for (long i = 0; i < len; ++i) f.push_back((char)payload_byte(prod, seq, i));
  return f;
}

struct Shared {
  AsyncPipe *pipe;
  std::string out;      // written by the sink callback only (back-end thread), read by main after cleanup()
  size_t blocks = 0;
};

void producer_main(Shared *sh, const sim::Plan *plan, long prod, size_t begin, size_t end, long seq) {
  for (size_t oi = begin; oi < end; ++oi) {
    const sim::Op &op = plan->ops[oi];
    if (op.kind == "cut" || op.arg(0) != prod) continue;
    long len = std::max(0L, std::min(20000L, op.arg(1)));
    std::string f = make_frame(prod, seq, len);
    sim::hist(H_APP_INV, prod, seq, len);
    if (op.kind == "applock") {
      sh->pipe->appendLock();
      sh->pipe->appendLockless(f.data(), 6);
      sim::yield();
      sh->pipe->appendLockless(f.data() + 6, f.size() - 6);
      sh->pipe->appendUnlock();
    } else {
      sh->pipe->append(f.data(), f.size());
    }
    sim::hist(H_APP_RET, prod, seq, len);
    sim::relevant();
    ++seq;
    for (long k = 0; k < op.arg(2); ++k) sim::yield();
    if (op.arg(3) > 0) sim::sleep_ns(op.arg(3) * 1000000);
  }
  sim::hist(H_PROD_DONE, prod, seq);
  sim::cell_add(C_PRODUCERS_LEFT, -1);
}

void execute(const sim::Plan &plan) {
  sim::start(plan);
  sim::name_thread("main");
  sim::fault_scope((uint64_t)plan.get("fseed"), (unsigned)plan.get("fmask"));
  sim::fault_late_max_ms(30);
  sim::set_deadlock_handler([](const sim::DeadlockInfo &info) {
    if (sim::cell_get(C_IN_CLEANUP)) sim::violation("C10/cleanup-never-returns", "simulator deadlock while cleanup() is running: " + info.summary);
    else if (sim::cell_get(C_PRODUCERS_LEFT) > 0) sim::violation("C10/producer-blocked-forever", "a producer is blocked in append() and nothing can wake it: " + info.summary);
    else sim::violation("C10/deadlock", info.summary);
  });
  sim::set_stepcap_handler([] { sim::violation("C10/livelock", "step cap reached"); });

  static Shared sh;
  AsyncPipe pipe;
  sh.pipe = &pipe;
  AsyncPipe::Config cfg;
  cfg.buff_size = (size_t)std::max(1L, plan.get("buff_size", 16));
  cfg.buff_min_num = (size_t)std::max(1L, plan.get("buff_min", 1));
  cfg.buff_max_num = (size_t)std::max((long)cfg.buff_min_num, plan.get("buff_max", 2));
  cfg.interval = (size_t)std::max(1L, plan.get("interval", 5));
  long cb_sleep = plan.get("cb_sleep_ms"), cb_yields = plan.get("cb_yields");
  long nprod = std::max(1L, std::min(4L, plan.get("nprod", 1)));
  std::vector<long> seq0((size_t)nprod, 0);
  size_t begin = 0;
  int session = 0;
  while (begin <= plan.ops.size()) {
    size_t end = begin;
    while (end < plan.ops.size() && plan.ops[end].kind != "cut") ++end;
    ++session;
    // cleanup() drops the callback: it is set for every session, before initialize() or (late_cb_ms) some idle rounds after it
    long late_cb_ms = std::max(0L, std::min(500L, plan.get("late_cb_ms")));
    auto sink = [cb_sleep, cb_yields](const void *data, size_t size) {
      sim::hist(H_CB_ENTER, (long)size);
      if (sim::cell_add(C_IN_CB, 1) != 1) sim::violation("C10/sink-callbacks-overlap", "the sink callback was entered while a previous invocation had not returned");
      for (long k = 0; k < cb_yields; ++k) sim::yield();
      if (cb_sleep > 0) sim::sleep_ns(cb_sleep * 1000000);
      sh.out.append(static_cast<const char *>(data), size);
      ++sh.blocks;
      sim::cell_add(C_IN_CB, -1);
      sim::hist(H_CB_EXIT, (long)size);
    };
    if (late_cb_ms == 0) pipe.setCallback(sink);
    if (!pipe.initialize(cfg)) { sim::violation("C10/initialize-failed", sim::fmt("initialize() rejected a valid configuration (session %d)", session)); return; }
    if (late_cb_ms > 0) { sim::sleep_ns(late_cb_ms * 1000000); pipe.setCallback(sink); sim::probe("sinks_installed_late"); }
    sim::cell_set(C_PRODUCERS_LEFT, nprod);
    std::vector<std::thread> th;
    for (long p = 0; p < nprod; ++p) th.emplace_back(producer_main, &sh, &plan, p, begin, end, seq0[(size_t)p]);
    for (auto &t : th) t.join();
    for (size_t oi = begin; oi < end; ++oi) { long pr = plan.ops[oi].arg(0); if (pr >= 0 && pr < nprod) ++seq0[(size_t)pr]; }
    sim::hist(H_CLEANUP_INV);
    sim::cell_set(C_IN_CLEANUP, 1);
    pipe.cleanup();
    sim::cell_set(C_IN_CLEANUP, 0);
    sim::hist(H_CLEANUP_RET, session);
    // everything appended so far has been delivered: frames per producer in the output so far
    {
      std::vector<long> seen((size_t)nprod, 0);
      size_t pos = 0; const std::string &o = sh.out;
      while (o.size() - pos >= 6 && (unsigned char)o[pos] == 0xA5) {
        long prod = (unsigned char)o[pos + 1]; long len = (unsigned char)o[pos + 4] | ((unsigned char)o[pos + 5] << 8);
        if (prod >= nprod || o.size() - pos - 6 < (size_t)len) break;
        ++seen[(size_t)prod]; pos += 6 + (size_t)len;
      }
      for (long p = 0; p < nprod && pos == o.size(); ++p)
        if (seen[(size_t)p] != seq0[(size_t)p]) { sim::violation("C10/append-not-delivered-by-cleanup", sim::fmt("session %d: producer %ld had appended %ld blocks when cleanup() began, only %ld had been delivered when it returned", session, p, seq0[(size_t)p], seen[(size_t)p])); break; }
    }
    if (session > 1) sim::probe("reinitialised_sessions");
    if (end >= plan.ops.size() || sim::violation_count()) break;
    begin = end + 1;
  }
  sim::finish();

  // ---------------------------------------------------------------- oracle
  // expected per producer
  std::vector<std::vector<long>> lens((size_t)nprod);
  for (const sim::Op &op : plan.ops) {
    long pr = op.arg(0);
    if (op.kind == "cut" || pr < 0 || pr >= nprod) continue;
    lens[(size_t)pr].push_back(std::max(0L, std::min(20000L, op.arg(1))));
  }
  const std::string &o = sh.out;
  std::vector<long> next_seq((size_t)nprod, 0);
  size_t pos = 0;
  while (pos < o.size()) {
    if (o.size() - pos < 6 || (unsigned char)o[pos] != 0xA5) {
      sim::violation("C10/output-not-a-frame-sequence", sim::fmt("byte %zu of the concatenated sink output does not start a whole frame (appends were split, lost or interleaved)", pos));
      break;
    }
    long prod = (unsigned char)o[pos + 1];
    long seq = (unsigned char)o[pos + 2] | ((unsigned char)o[pos + 3] << 8);
    long len = (unsigned char)o[pos + 4] | ((unsigned char)o[pos + 5] << 8);
    if (prod >= nprod) { sim::violation("C10/output-not-a-frame-sequence", "frame with an unknown producer id"); break; }
    if (seq != next_seq[(size_t)prod]) {
      sim::violation(seq < next_seq[(size_t)prod] ? "C10/append-duplicated-or-reordered" : "C10/append-lost-or-reordered",
                     sim::fmt("producer %ld: expected append #%ld next, found #%ld", prod, next_seq[(size_t)prod], seq));
      break;
    }
    if ((size_t)seq >= lens[(size_t)prod].size() || lens[(size_t)prod][(size_t)seq] != len) { sim::violation("C10/frame-corrupt", "frame length differs from the appended one"); break; }
    if (o.size() - pos - 6 < (size_t)len) { sim::violation("C10/append-truncated", "the last frame of the output is incomplete"); break; }
    bool okp = true;
    for (long i = 0; i < len; ++i) if ((unsigned char)o[pos + 6 + (size_t)i] != payload_byte(prod, seq, i)) { okp = false; break; }
    if (!okp) { sim::violation("C10/frame-corrupt", sim::fmt("payload of producer %ld append #%ld is not contiguous/intact", prod, seq)); break; }
    ++next_seq[(size_t)prod];
    pos += 6 + (size_t)len;
  }
  if (sim::violation_count() == 0) {
    for (long p = 0; p < nprod; ++p)
      if (next_seq[(size_t)p] != (long)lens[(size_t)p].size())
        sim::violation("C10/append-not-delivered-by-cleanup", sim::fmt("producer %ld appended %zu blocks before cleanup() began, only %ld had been delivered when it returned",
                                                                      p, lens[(size_t)p].size(), next_seq[(size_t)p]));
  }
  // callbacks after cleanup returned / overlap (from the history)
  int depth = 0;
  bool cleaned = false;        // between a cleanup() return and the next initialize() (= the next append) no callback may run
  for (const sim::HEvent &e : sim::history()) {
    if (e.kind == H_CLEANUP_RET) cleaned = true;
    if (e.kind == H_APP_INV) cleaned = false;
    if (e.kind == H_CB_ENTER) { if (++depth > 1) sim::violation("C10/sink-callbacks-overlap", "nested sink callback in the history"); if (cleaned) sim::violation("C10/callback-after-cleanup", "sink callback after cleanup() returned"); }
    if (e.kind == H_CB_EXIT) --depth;
  }
  if (sh.blocks > 0) sim::probe("blocks", (long)sh.blocks);
}

const sim::Harness H = {"C10", "c10_asyncpipe", generate, execute};
}  // namespace

int main(int argc, char **argv) { return sim::harness_main(argc, argv, H); }
