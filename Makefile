# Build of libsim, the tbox objects (straight from /repo's working tree) and the
# harnesses, per sanitizer flavour.  Usage: make FLAVOUR=asan H=c05_threadpool
REPO ?= /repo
FLAVOUR ?= asan
B := build/$(FLAVOUR)
CXX := g++

MODULES := base util event eventx network http jsonrpc terminal log flow alarm coroutine main trace crypto

VER := -DTBOX_VERSION_MAJOR=1 -DTBOX_VERSION_MINOR=12 -DTBOX_VERSION_REVISION=5
COMMON := -O1 -g -fno-omit-frame-pointer -DNDEBUG -DTBOX_VERIF_SIM -DHAVE_EPOLL=1 -DHAVE_SELECT=1 $(VER) \
          -I$(REPO)/modules -I$(REPO)/3rd-party -pthread -w

SAN_asan  := -fsanitize=address,undefined -fno-sanitize-recover=undefined
SAN_tsan  := -fsanitize=thread
SAN_plain :=
SAN := $(SAN_$(FLAVOUR))
# the scheduler must stay invisible to TSan
SIMSAN_asan  := $(SAN_asan)
SIMSAN_tsan  :=
SIMSAN_plain :=
SIMSAN := $(SIMSAN_$(FLAVOUR))

WRAPS := pthread_create pthread_join pthread_mutex_lock pthread_mutex_trylock pthread_mutex_unlock \
  pthread_cond_wait pthread_cond_timedwait pthread_cond_clockwait pthread_cond_signal pthread_cond_broadcast \
  clock_gettime gettimeofday time nanosleep clock_nanosleep usleep sleep sched_yield \
  epoll_wait select poll read write readv writev send recv sendto recvfrom accept accept4 connect \
  sigprocmask pthread_sigmask sigaction syscall open open64 arc4random arc4random_buf arc4random_uniform getentropy getrandom _ZNSt13random_device9_M_getvalEv
comma := ,
WRAPFLAGS := $(foreach w,$(WRAPS),-Wl$(comma)--wrap=$(w))

# ---------------------------------------------------------------- tbox objects
define MODULE_RULES
SRCS_$(1) := $$(shell find $(REPO)/modules/$(1) -name '*.cpp' ! -name '*_test.cpp' ! -path '*/example*' ! -path '*/tests/*' | sort)
OBJS_$(1) := $$(patsubst $(REPO)/modules/%.cpp,$(B)/tbox/%.o,$$(SRCS_$(1)))
$$(OBJS_$(1)): $(B)/tbox/%.o: $(REPO)/modules/%.cpp
	@mkdir -p $$(dir $$@)
	$(CXX) -std=c++11 $(COMMON) $(SAN) -DMODULE_ID='"tbox.$(1)"' -MMD -MP -c $$< -o $$@
ALL_TBOX_OBJS += $$(OBJS_$(1))
endef
$(foreach m,$(MODULES),$(eval $(call MODULE_RULES,$(m))))

$(B)/libtbox.a: $(ALL_TBOX_OBJS)
	@rm -f $@
	ar rcs $@ $(ALL_TBOX_OBJS)

# ---------------------------------------------------------------- libsim
SIM_SRCS := sim/sched.cpp sim/runner.cpp sim/sanopts.cpp
SIM_OBJS := $(patsubst sim/%.cpp,$(B)/sim/%.o,$(SIM_SRCS))
$(B)/sim/%.o: sim/%.cpp sim/sim.h sim/internal.h sim/prng.h
	@mkdir -p $(dir $@)
	$(CXX) -std=c++14 $(COMMON) $(SIMSAN) -fno-gnu-unique -c $< -o $@

# One relocatable object whose template instantiations are local, so that the
# linker can never merge libsim's (uninstrumented) std:: code with tbox's.
$(B)/sim/libsim.o: $(SIM_OBJS)
	ld -r --force-group-allocation -o $@.tmp.o $(SIM_OBJS)
	objcopy --wildcard --keep-global-symbol='_ZN3sim*' --keep-global-symbol='_ZNK3sim*' --keep-global-symbol='__wrap_*' \
	  --keep-global-symbol='__*san_default_options' $@.tmp.o $@
	@rm -f $@.tmp.o

# ---------------------------------------------------------------- harnesses
HARNESSES := $(patsubst harness/%.cpp,%,$(wildcard harness/c*.cpp))
$(B)/harness/%.o: harness/%.cpp sim/sim.h sim/prng.h $(wildcard harness/*.h)
	@mkdir -p $(dir $@)
	$(CXX) -std=c++14 $(COMMON) $(SAN) -DMODULE_ID='"verif"' -Isim -MMD -MP -c $< -o $@

$(B)/bin/%: $(B)/harness/%.o $(B)/sim/libsim.o $(B)/libtbox.a
	@mkdir -p $(dir $@)
	$(CXX) $(SAN) -o $@ $< $(B)/sim/libsim.o -Wl,--start-group $(B)/libtbox.a -Wl,--end-group $(WRAPFLAGS) -static-libstdc++ -pthread -ldl

.PHONY: all harness lib clean
all: $(foreach h,$(HARNESSES),$(B)/bin/$(h))
harness: $(B)/bin/$(H)
lib: $(B)/libtbox.a $(B)/sim/libsim.o
clean:
	rm -rf build

.PRECIOUS: $(B)/harness/%.o $(B)/sim/%.o $(B)/tbox/%.o
-include $(ALL_TBOX_OBJS:.o=.d)
-include $(wildcard $(B)/harness/*.d)
